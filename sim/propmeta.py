"""Per-property metadata used by ./check: search sizes per tier, evidence texts."""

REAL_BUS = {
    "ebu bus / persist / upcast / state code": "real (instrumented copy of /repo's working tree: sync, sync/atomic, go statements and blocking selects routed through the simulator)",
    "sync.Mutex / RWMutex / WaitGroup / atomics": "simulated (simshim/simsync, simatomic: decision points + modelled blocking)",
    "goroutine scheduling": "simulated (simshim/simrt: one runnable task at a time, choice tape)",
    "clock, timers, context deadlines": "fake clock of testing/synctest (real time/context code)",
    "handlers, filters, hooks, callbacks": "harness stubs (scripted)",
}

COMMON_ASSUME = [
    "the simulated sync primitives (simshim/simsync) are a faithful model of Go's: mutual exclusion, writer-preferring RWMutex, WaitGroup counter semantics",
    "code between two decision points (lock/unlock, atomic op, go statement, handler entry, store call) executes atomically in the simulation",
    "the search samples schedules and fault placements; a clean batch is evidence, not proof",
]

def tiers(quick_checks, thorough_checks, quick_budget=25, thorough_budget=420, chunk=100, qworkers=8):
    return {
        "quick": {"workers": qworkers, "checks": quick_checks, "budget_s": quick_budget, "chunk": chunk},
        "thorough": {"workers": 16, "checks": thorough_checks, "budget_s": thorough_budget, "chunk": chunk},
    }

PROPS = {
    "C04": {
        "tiers": tiers(4000, 150000),
        "rule": "rapid-generated scenario (1-5 registrations incl. >=1 Once handler with sync/async x filter kinds, 1-4 concurrent publisher tasks x 1-4 publishes each, every publish live / pre-cancelled) + choice tape; executed under the simrt scheduler. A run is non-trivial when at least one decision point had >=2 ready tasks; distinct = distinct (scenario shape, schedule trace hash, history hash).",
        "components": REAL_BUS,
        "assumptions": COMMON_ASSUME + ["publishes whose context is cancelled by another task mid-publish are not generated (indeterminate for 'used up'); only live and already-cancelled contexts"],
        "expect_probes": [],
    },
}
