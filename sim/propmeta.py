"""Per-property metadata used by ./check: search sizes per tier, evidence texts."""

REAL_BUS = {
    "ebu bus / persist / upcast / state code": "real (instrumented copy of /repo's working tree: sync, sync/atomic, go statements and blocking selects routed through the simulator)",
    "sync.Mutex / RWMutex / WaitGroup / atomics": "simulated (simshim/simsync, simatomic: decision points + modelled blocking)",
    "goroutine scheduling": "simulated (simshim/simrt: one runnable task at a time, choice tape)",
    "clock, timers, context deadlines": "fake clock of testing/synctest (real time/context code)",
    "handlers, filters, hooks, callbacks": "harness stubs (scripted)",
}

COMMON_ASSUME = [
    "the simulated sync primitives (simshim/simsync) are a faithful model of Go's: mutual exclusion, writer-preferring RWMutex, WaitGroup counter semantics",
    "code between two decision points (lock/unlock, atomic op, go statement, handler entry, store call) executes atomically in the simulation",
    "the search samples schedules and fault placements; a clean batch is evidence, not proof",
]

def tiers(quick_checks, thorough_checks, quick_budget=25, thorough_budget=420, chunk=100, qworkers=8):
    return {
        "quick": {"workers": qworkers, "checks": quick_checks, "budget_s": quick_budget, "chunk": chunk},
        "thorough": {"workers": 16, "checks": thorough_checks, "budget_s": thorough_budget, "chunk": chunk},
    }

STORES = {
    "MemoryStore": "real (instrumented ebu code)",
    "SQLite store": "real stores/sqlite code over the real modernc.org/sqlite engine on a real file in a per-run temp dir (runs as atomic steps; its internals are not scheduled)",
    "durable-streams store": "real stores/durablestream client code + real durable-streams-go protocol handler and in-memory storage, connected by an in-process http.RoundTripper (no sockets; the RoundTripper injects lost requests / lost responses)",
}

PROPS = {
    "C14": {
        "custom": "c14driver",
        "engine": "crashkill",
        "level": "fault_enumeration",
        "tiers": {"quick": {}, "thorough": {}},
        "rule": "seeded workload scripts (3-14 ops quick, 3-40 thorough: Append with explicit type/data/timestamp, SaveOffset of an acknowledged offset, clean Close+reopen, Read) are executed by a child process on a real SQLite file; a dry run under strace -P <db,-wal,-shm> records its pwrite64/fsync/fdatasync/ftruncate/unlink calls (twice: the sequence must be identical), then the workload is re-run once for EVERY such call k with SIGKILL injected on entering it; further cases inject ENOSPC/EIO into the k-th write/sync/truncate, and chained cases kill, recover, continue with a second and third generated workload and kill again. A fresh child reopens the file twice and dumps log, saved offsets and schema rows. A case counts when the injected fault actually landed; distinct = distinct (workload, fault sequence).",
        "components": {"SQLite store": "real stores/sqlite code (uninstrumented copy of /repo's working tree) in a real child process", "SQLite engine": "real modernc.org/sqlite on a real file (WAL mode as the store configures it)",
                       "disk / process death": "real kernel; SIGKILL and write/sync errors injected by strace at system-call entry, addressed by (system call, k-th occurrence) on the database files", "scheduler": "not simulated (single-threaded workload); determinism comes from the identical system-call sequence, re-verified on every run"},
        "assumptions": ["process kill only: the page cache survives, so power loss (un-fsynced data dropped) is out of scope, as in the property's own words", "the kill lands on ENTRY to a system call: both 'the write happened' and 'it did not' are covered by adjacent kill points, partial writes inside one call are not",
                        "an append that was not acknowledged (in flight at the kill, or failed with an injected disk error) may be present or absent; everything acknowledged must be present, in order, byte-identical, under the acknowledged offset"],
        "level_note": "Trusts strace's injection semantics and the kernel; the store, the SQL driver and SQLite are all real. Every crash point of each generated workload is enumerated; workloads, disk errors and multi-generation chains are sampled.",
    },
    "C12": {
        "tiers": tiers(2000, 60000, quick_budget=40),
        "rule": "rapid-generated history of 1-3 process incarnations plus a final fault-free one on the same MemoryStore or SQLite file: in each, a publisher task publishes 0-6 events of the four event-type shapes while a subscriber task calls SubscribeWithReplay for 1-2 subscription ids at drawn points (so publishes interleave with a running SubscribeWithReplay at scheduler-chosen points); an incarnation ends cleanly or crashes right after (or before) its m-th store operation - every Append, Read, streamed row, SaveOffset and LoadOffset counts - after which its tasks are dead: the decorator refuses their store calls and their deliveries are ignored; at most one store operation in the run fails (append/read/save/load, before its effect or with the acknowledgement lost); + choice tape. Oracle over the concatenated delivery history and the durable saves. Non-trivial: a crash or fault happened or more than one incarnation; distinct = (scenario shape, schedule trace hash, history hash).",
        "components": dict(REAL_BUS, **STORES),
        "assumptions": COMMON_ASSUME + ["one publisher task per incarnation (order of live deliveries under several concurrent publishers is outside the statement)", "a crash is modelled at store-operation granularity: nothing of a dead incarnation reaches the store or the delivery record afterwards", "durable-streams is not used here: it has no subscription store and its per-event offsets are synthetic (C10 known finding)"],
    },
    "C11": {
        "tiers": tiers(2000, 60000, quick_budget=40),
        "level": "fault_enumeration",
        "rule": "rapid-generated case: store configuration (MemoryStore streaming / paged; SQLite streaming unbatched, stream batch 1/2/3/7, paged; durable-streams paged with chunk default/64/256), WithReplayBatchSize unset/1/2/3/5/100, log length 0-40 (two thirds 0-12), start offset anywhere in the log, and one fault drawn jointly with its position: none, callback error at call k, context cancelled before the call, context cancelled by the callback at call k, store Read/stream-open failure at page p, stream row failure at row r, SQL driver failures underneath the SQLite store (rows.Next fails at row r, query fails, Rows.Close fails - through the verif hook), lost request / lost response on the j-th GET (durable-streams). Before the seeded search the workers together enumerate the WHOLE grid (9 store configurations x batch sizes x log length 0..3 quick / 0..6 thorough x every start offset x every applicable fault kind x every fault position). Non-trivial: non-empty log; distinct = (scenario, history hash).",
        "components": dict(REAL_BUS, **dict(STORES, **{"SQL driver": "real modernc driver wrapped by a fault-injecting database/sql driver installed through the tag-guarded hook stores/sqlite/verif_hooks.go"})),
        "assumptions": COMMON_ASSUME + ["a cancellation that arrives after the last event was delivered may yield nil (the statement's two clauses disagree there; the weaker one is checked)"],
    },
    "C20": {
        "tiers": tiers(2500, 80000, quick_budget=40),
        "rule": "rapid-generated workload: 0-5 registrations (plain/context-aware, sync/Async, Sequential, Once, filters; some panic on chosen invocations, some cancel the publish context), 1-2 publisher tasks x 1-4 publishes with absent / live / already-cancelled contexts, optional persistence through a fault-injecting decorator (k-th Append fails, or blocks until a 10 ms simulated persistence timeout), + choice tape; the bus is observed either by a token recorder (every start callback returns a context carrying a fresh token; every callback logs the tokens it sees) or by the real otel.Observability on an SDK TracerProvider with a synchronous SpanRecorder and a ManualReader. Faults = handler panics, context cancellations, append failures/timeouts. Every run is non-trivial; distinct = (scenario shape, schedule trace hash, history hash).",
        "components": dict(REAL_BUS, **{"otel.Observability": "real (instrumented copy) on the real OpenTelemetry SDK (TracerProvider + tracetest.SpanRecorder, MeterProvider + ManualReader)", "event store": "MemoryStore behind the fault-injecting decorator"}),
        "assumptions": COMMON_ASSUME + ["an invocation is linked to the handler-start callback that precedes it on the same simulated task"],
    },
    "C19": {
        "tiers": tiers(3000, 100000),
        "rule": "rapid-generated batches of 1-12 state-protocol messages built with all eight helper constructors x option subsets (WithTxID, WithTimestamp, WithAutoTimestamp under the simulated clock, WithEntityType incl. the empty override) x three entity types x seven keys (unicode, separator, quotes), published on a persistent bus over MemoryStore / SQLite / durable-streams and read back; the stored JSON is checked for the protocol's field names and the built content; each event is then applied to a materializer, a third of them after corrupting the stored bytes on the read path (bit flip, truncation, torn tail, bytes of another event, 23 hand-written malformed documents, random byte strings). Oracle: Apply never panics; an error leaves collections and LastOffset untouched; success changes state only as an independent decoder of the protocol says. Every run is non-trivial; distinct = (scenario, history hash).",
        "components": dict(REAL_BUS, **STORES),
        "assumptions": COMMON_ASSUME + ["this property has no schedule dimension: the simulator contributes the fault placement (which stored event is corrupted, how) and the simulated clock; the byte-string half is generator-driven input testing hosted in the harness (stated in DESIGN.md)"],
    },
    "C18": {
        "tiers": tiers(3000, 100000),
        "rule": "rapid-generated message log (1-40 insert/update/delete/reset/snapshot-start/snapshot-end messages built with the public helpers over three registered entity types - one with a custom state type name, values with omitempty fields and maps - plus an unregistered type, keys including several that contain the separator), published on a persistent bus (MemoryStore or SQLite; streaming or paged with batch 1-5), strict or non-strict materializer, consumed by Materializer.Replay in 1-3 sessions: each but the last is interrupted by an injected store read failure after a drawn number of events and the next resumes from LastOffset; compared with a last-writer-wins fold and with a twin materializer that applies the log in one session. Non-trivial: more than one message; distinct = (scenario, history hash).",
        "components": dict(REAL_BUS, **STORES),
        "assumptions": COMMON_ASSUME + ["sessions run on one materializer and its collections (state is in memory; a crashed process would rebuild from the oldest offset)"],
    },
    "C17": {
        "tiers": tiers(3000, 100000),
        "level": "fault_enumeration",
        "rule": "rapid-generated acyclic upcaster graph (0-8 raw edges over 7 names, several upcasters per source so 'first registered' matters, each raw upcaster appends a marker so the composition order is visible; optional typed family UA->UB->UC registered with RegisterUpcast, optionally reached from a raw edge), a 1-6 event log of raw and typed events (typed payloads sometimes undecodable) on MemoryStore or SQLite, and a fault position: the k-th upcaster application of the replay returns an error (k in 0..10, or none); with/without upcast error handler; checked through ReplayWithUpcast and SubscribeWithReplay[UC] against a chain model. Before the seeded search the workers enumerate a fixed grid: 7 hand-picked graphs x typed family x a log with one event of every type x EVERY failure position 0..14 x error handler on/off. Non-trivial: at least one upcaster registered; distinct = (graph, log, fault position) by scenario hash and history hash.",
        "components": dict(REAL_BUS, **STORES),
        "assumptions": COMMON_ASSUME + ["no concurrency in this property: the simulator contributes fault placement (every failure position of every chain over the sampled graphs), not schedules"],
    },
    "C16": {
        "tiers": tiers(3000, 100000),
        "rule": "three scenario families drawn per run: (A) 1-14 sequential RegisterUpcastFunc / ClearUpcasts / ClearUpcastsForType calls over 2-6 type names incl. invalid inputs (empty name, source = target, nil function), decided against a reachability-graph model; (B) 2-4 tasks racing such calls, results checked for linearizability against the same model with porcupine; (C) 1-5 raw upcasters whose returned type is drawn independently of the declared target (own source, earlier type, unknown type) over a 1-3 event log, ReplayWithUpcast or SubscribeWithReplay must finish within a step budget (each upcaster application is a scheduler step). Before the seeded search worker 0 enumerates EVERY sequence of length <=4 (quick) / <=5 (thorough) over a 20-operation alphabet on 3 names. Non-trivial: more than one operation; distinct = (scenario shape, schedule trace hash, history hash).",
        "components": REAL_BUS,
        "assumptions": COMMON_ASSUME + ["termination is judged by a step budget of 400 + 200 x registered upcasters scheduler steps"],
        "expect_probes": ["porcupine-ok"],
    },
    "C03": {
        "custom": "c03driver",
        "tiers": tiers(2000, 60000, quick_budget=40),
        "rule": "rapid-generated scenario: 0-4 initial subscriptions, 2-5 client tasks x 1-5 operations drawn from every public call except the setters (publish to sync/async/once/sequential/filtered handlers, subscribe, unsubscribe, clear, clearAll, has/count, Wait, Shutdown(ctx), Replay, ReplayWithUpcast, SubscribeWithReplay, store reads, RegisterUpcastFunc, ClearUpcasts(ForType), Materializer Apply/Replay/LastOffset/RegisterCollection, collection Get/All) on three event types out of 40, a MemoryStore-backed bus in half the runs; handlers, filters and before/after hooks re-enter the bus (publish/subscribe/unsubscribe/clear/count/has on a leaf type), + choice tape. Each scenario set is run twice: normal build (deadlock verdict of the scheduler) and -race build (Go race detector with the simulator's hand-offs hidden and sync happens-before edges modelled by the shims). Non-trivial: >=1 decision point with >=2 ready tasks; distinct = (scenario shape, schedule trace hash).",
        "components": dict(REAL_BUS, **{"race detection": "real Go race detector (ThreadSanitizer) in a -race build of the instrumented code; happens-before edges of Mutex/RWMutex/WaitGroup/Once/atomics supplied by simshim/simsync annotations, scheduler hand-offs excluded with runtime.RaceDisable"}),
        "assumptions": COMMON_ASSUME + ["a synchronous Sequential handler never publishes and handlers never call Wait/Shutdown (no implementation honouring Sequential could avoid those deadlocks)", "SQLite and durable-streams internals are not instrumented: races inside them are out of reach; MemoryStore, bus, upcast registry and materializer are covered", "the race engine reports two accesses that ebu's own synchronisation leaves unordered; accesses inside one decision-point-free region are never torn"],
    },
    "C13": {
        "tiers": tiers(2000, 60000, quick_budget=40),
        "rule": "rapid-generated scenario: 1-2 publisher tasks x 1-8 publishes through a fault-injecting decorator over MemoryStore or SQLite; fault plan addresses the k-th Append: fail before effect, lose the acknowledgement after effect, block until the persistence timeout (5/50 ms simulated) expires; unencodable events (channel, func, NaN) at drawn positions; with/without error handler (optionally re-entrant: it publishes an alert on the same bus), optional Observability, 1-3 handlers of mixed kinds, + choice tape. Non-trivial: at least one persistence failure happened; distinct = (scenario shape, schedule trace hash, history hash).",
        "components": dict(REAL_BUS, **STORES),
        "assumptions": COMMON_ASSUME + ["an Append whose acknowledgement is lost is reported as failed by the bus although the record is durable: the oracle expects exactly that record in the log and one error report"],
    },
    "C09": {
        "tiers": tiers(2000, 60000, quick_budget=40),
        "rule": "rapid-generated scenario: New() with a random permutation of a random subset of 11 bus options always containing WithStore (hooks legacy/context before/after, Observability, error/panic handlers, subscription store, batch size, timeout), store = MemoryStore or SQLite behind a yielding decorator, 1-4 publisher tasks x 1-5 publishes of four event-type shapes (value, pointer, custom name on value receiver, custom name on pointer receiver) x 6 payload variants, sync or async handlers that read the store and look for the event they are handling, + choice tape. Non-trivial: >=1 decision point with >=2 ready tasks or more than one option; distinct = (scenario shape, schedule trace hash, history hash).",
        "components": dict(REAL_BUS, **STORES),
        "assumptions": COMMON_ASSUME + ["the store is fault-free here (failures are C13)"],
    },
    "C10": {
        "tiers": tiers(1500, 40000, quick_budget=40),
        "rule": "rapid-generated operation sequence (1-30, sometimes 30-120 so the log passes 10 and 100 entries) of Append / Read(o,n) / ReadStream(o) with early stop / SaveOffset / LoadOffset against one of MemoryStore, SQLite (stream batch 0/1/2/3/100) or durable-streams (chunk default/64/256 bytes), resume offsets drawn only from offsets the same store returned (append results, event offsets, next offsets) or oldest, limits from {-1,0,1,2,3,7,1000}, events with arbitrary type strings / JSON documents / timestamps (years 1-9999, ns, six zone shapes); compared call by call with a single-copy log model; 20% of runs add 2-4 concurrent client tasks checked with porcupine; durable-streams runs may lose requests/responses. Non-trivial: >2 operations; distinct = (scenario shape, schedule trace hash, history hash).",
        "components": dict(REAL_BUS, **STORES),
        "assumptions": COMMON_ASSUME + ["type strings are valid UTF-8 and offsets passed in were returned by the same store (or oldest)", "SQLite disk errors (ENOSPC/EIO) are exercised by the C14 engine, not here"],
        "expect_probes": ["log-past-10-entries", "log-past-100-entries", "porcupine-ok"],
    },
    "C08": {
        "race_companion": {"quick": 300, "thorough": 8000},
        "tiers": tiers(3000, 120000),
        "rule": "rapid-generated scenario: 0-6 registrations on one type (plain/context-aware, sync/Async, Sequential, filters; each may cancel the publish context on its k-th invocation), 1-5 consecutive publishes whose context is absent / live cancellable / already cancelled / a 5 ms deadline that expires inside a handler's simulated sleep, every subset of the four publish hooks (installed by option or by setter), optional Observability and interface-typed publish, + choice tape for async tasks. Fault = context cancellation (before the call, by a handler, by deadline). Every run is non-trivial; distinct = (scenario shape, schedule trace hash, history hash).",
        "components": REAL_BUS,
        "assumptions": COMMON_ASSUME + ["a synchronous handler counts as 'started after cancellation' only if the cancellation happened before the previous synchronous handler of that publish returned or before this handler's filter finished evaluating (the unavoidable check-then-call window is not flagged)"],
    },
    "C06": {
        "race_companion": {"quick": 300, "thorough": 8000},
        "tiers": tiers(2500, 100000),
        "rule": "rapid-generated scenario: 1-4 registrations on two event types A and B (Async, or sync handlers that publish nested async work; handler bodies sleep 0-50 ms of simulated time; A-handlers may publish a B event from inside), a waiter task running 1-7 steps of publish / sleep / Wait / Shutdown(ctx: background, deadline 0-200 ms, already cancelled), 0-2 concurrent publisher tasks, store with Close / without Close / failing Close / no store, + choice tape (also decides Shutdown's select when both cases are ready). Non-trivial: at least one Wait or Shutdown call was made; distinct = (scenario shape, schedule trace hash, history hash).",
        "components": dict(REAL_BUS, **{"event store": "harness stub counting Close calls"}),
        "assumptions": COMMON_ASSUME + ["publish contexts stay live in this property's scenarios (cancellation is C08)", "'every processor count' is covered by the scheduler exploring interleavings directly rather than by varying GOMAXPROCS"],
        "expect_probes": ["wait-called-with-async-work-pending"],
    },
    "C07": {
        "race_companion": {"quick": 300, "thorough": 8000},
        "tiers": tiers(3000, 120000),
        "rule": "rapid-generated scenario: 1-3 registrations on one event type (at least one Sequential; sync or Async), 1-4 publisher tasks each publishing 1-8 tagged events one after another, handler bodies that yield 1-5 times between their enter and exit marks, optionally publishing through an interface-typed value (reflection dispatch path), + choice tape. Non-trivial: >=1 decision point with >=2 ready tasks; distinct = (scenario shape, schedule trace hash, history hash).",
        "components": REAL_BUS,
        "assumptions": COMMON_ASSUME,
    },
    "C05": {
        "race_companion": {"quick": 300, "thorough": 8000},
        "tiers": tiers(3000, 120000),
        "rule": "rapid-generated scenario: 1-6 registrations on one event type (plain/context-aware alternating, option subsets of Once/Async/Sequential/filter), each with a set of invocation numbers on which it panics and one of five panic-value kinds (string, error, struct, runtime.Error, nil), 1-6 consecutive publishes, panic handler installed or not, Wait after every publish or only at the end, + choice tape for the async tasks. Fault = injected handler panic. Non-trivial: at least one panic was actually raised; distinct = (scenario shape, schedule trace hash, history hash).",
        "components": REAL_BUS,
        "assumptions": COMMON_ASSUME,
    },
    "C01": {
        "tiers": tiers(3000, 150000),
        "rule": "rapid-generated operation sequence (1-30 of Subscribe/SubscribeContext, Unsubscribe, Clear, ClearAll, Publish/PublishContext, HasHandlers, HandlerCount) by one client task over a pool of 1/2/3/6/40 of the 40 generated event types (40 > any shard count, so routing is shared), option subsets of Once/Async/Sequential/filter, the same function subscribed repeatedly, and per-function scripts of re-entrant operations executed from inside handlers; compared operation by operation with a reference registry (snapshot-at-publish semantics). Async deliveries run as simulator tasks. Non-trivial: more than one operation; distinct = (scenario shape, schedule trace hash, history hash).",
        "components": REAL_BUS,
        "assumptions": COMMON_ASSUME + ["a synchronous Sequential handler never publishes (the stated self-overlap exception)", "when a function is registered several times, Unsubscribe may remove any one of them (every choice is tried before reporting)"],
        "expect_probes": ["reentrant-op-from-handler", "more-types-than-shards"],
    },
    "C02": {
        "race_companion": {"quick": 300, "thorough": 8000},
        "tiers": tiers(3000, 120000),
        "rule": "rapid-generated scenario: 0-3 initial registrations, then 2-4 client tasks each issuing 1-6 operations (Subscribe with Once/Async/Sequential/filter options, Unsubscribe, Clear, Publish) on 1-2 shared event types drawn from 40, + choice tape. Every API call/return and handler entry is stamped with the simulator's sequence number; the oracle applies the property's interval rules per (registration, publish) pair and probes the quiescent registry with two extra publishes. Non-trivial: >=1 decision point with >=2 ready tasks; distinct = (scenario shape, schedule trace hash, history hash).",
        "components": REAL_BUS,
        "assumptions": COMMON_ASSUME + ["outside the twins runs each registration uses its own handler function, so a registration is identified by its function (Unsubscribe is by function identity); in twins runs registrations of one function are interchangeable for Unsubscribe and the rules are stated per function group"],
    },
    "C04": {
        "race_companion": {"quick": 300, "thorough": 8000},
        "tiers": tiers(4000, 150000),
        "rule": "rapid-generated scenario (1-5 registrations incl. >=1 Once handler with sync/async x filter kinds, 1-4 concurrent publisher tasks x 1-4 publishes each, every publish live / pre-cancelled) + choice tape; executed under the simrt scheduler. A run is non-trivial when at least one decision point had >=2 ready tasks; distinct = distinct (scenario shape, schedule trace hash, history hash).",
        "components": REAL_BUS,
        "assumptions": COMMON_ASSUME + ["publishes whose context is cancelled by another task mid-publish are not generated (indeterminate for 'used up'); only live and already-cancelled contexts"],
        "expect_probes": [],
    },
}

# Additions made after the first build (waves 3 and 4 of seeded changes, the reach diagnostic); appended to the
# generation rule that every evidence file quotes.
RULE_ADDENDA = {
    "C02": "A quarter of the runs are 'twins' runs: every registration is a closure of one of two function literals (same code pointer, own uid), 1-3 tasks subscribe / unsubscribe / publish, and the oracle is stated per function group (each successful Unsubscribe removes exactly one registration, a fired Once retires itself only; per-publish delivery bounds and HandlerCount bounds valid under every linearization). One run in eight starts with a crowd of 9-16 registrations of which the tasks unsubscribe 3-8. A third of the runs publish the events whose id is divisible by 3 through an interface-typed value (Publish[any]).",
    "C03": "Upcasters are registered under the persisted names of the scenario's own three event types; a sequential preamble stores events and registers upcasters so that concurrent replays walk real chains; resumable subscriptions on the active types; direct SaveOffset / LoadOffset operations. pubburst operations publish 2-3 events under one context, cancel it straight afterwards and publish a live event behind them; about a third of the registered upcasters fail; in a quarter of the persistent runs 3-6 further tasks each open a resumable subscription (ids of their own) to the first active type at the same time. The re-entering hooks include a context-aware after-publish hook.",
    "C04": "In a quarter of the runs every Once handler panics at the end of its invocation; a canceller handler subscribed first cancels chosen publishes mid-way. In a third of the runs a further task subscribes 1-3 handlers whose filter accepts nothing (Once and ordinary) while the publishers run. A quarter of the publishes go through Publish[any]. In a quarter of the runs an extra Once handler with an accept-all filter is subscribed first; for chosen publishes of its type that filter cancels the publish context (nothing may run for such a publish, and the handler must survive it). Filters include the same predicates declared over an interface type (WithFilter[any]).",
    "C05": "Eight panic-value kinds incl. a typed-nil pointer error, a typed-nil Stringer and an error whose Error() panics; optional Observability; publish through an interface-typed value; panic handler by option or setter, optionally re-entering the bus. One run in five registers its handlers through SubscribeWithReplay on a persistent bus; in a quarter of the others publishes carry a cancellable context which a panicking invocation cancels before it panics (deliveries of that event are then indeterminate: none more often than published, every panic still reported once).",
    "C06": "Registrations may also be Sequential and filtered (even / odd ids), so several Async+Sequential handlers of one type see different event counts.",
    "C07": "Cancellation of chosen publishes by a synchronous neighbour or by a task of its own 0-40 decision points after the publish started; a first invocation 40 times longer than the others (a queue builds up); one run in six uses resumable Sequential subscriptions (SubscribeWithReplay) made while publishers run, checked for overlap only. One run in twenty is a deep run: one publisher, 130-400 events queued behind a first invocation that lasts until nearly all of them are published. In a third of the runs the context a context-aware handler was given (for a publish that is never cancelled) is kept and used for later publishes with odd ids by any publisher task.",
    "C10": "A quarter of the SQLite / durable-streams runs open the store with its optional instrumentation (metrics hook whose callbacks are decision points, logger, 250 ms busy timeout, no auto-migration on reopen). Explicit cases: 1025- and 2100-event histories with reads and streams resumed around positions 1023-1025; generated histories include appends with an already cancelled context and, on file-based SQLite, a second handle on the same file. Zones include two whose offset has seconds (+00:57:44, -00:19:32). append-other operations keep writing to the separately created second store during the history; at the end it must read back exactly its own events (memory and SQLite). Half of the two-handle runs end with one subscription saved through both handles in turn (first handle, second handle, first handle with its earlier value) and loaded back through both.",
    "C11": "Transport faults incl. a GET answered after the client's deadline; callbacks that cancel and return an error in one call; a quarter of the SQLite / durable-streams runs with store instrumentation options. Explicit cases include logs of 1023 / 1024 / 1025 / 2049 / 4096 / 10001 and 16 500 events; injected read failures and failing stream rows come in two flavours, an opaque error and one that wraps io.EOF. A third of the logs are odd: neighbouring timestamps swapped and / or every fifth event's data the document null and every seventh event's type empty; events are identified by their timestamp.",
    "C12": "SQL-level failure of one chosen write to the subscription table; SQLite runs optionally with store instrumentation options and no auto-migration on reopen. A third of the generations are sub-first (the publisher starts when the subscriber's catch-up is done); offsets optionally live in a separate subscription store; explicit cases: 224 four-generation restart histories (one or two event shapes) (subscribe+publish, writer-only generation, fresh bus that catches up and whose first or last append fails or loses its acknowledgement, or a second id joins; resume) on MemoryStore and SQLite. Subscription ids differ only in letter case ('Sub-x', 'sub-x'). A quarter of the runs have a 20 ms persistence timeout, publishers with 60 ms sleep steps, and offset operations that refuse a dead context; the bus calling SaveOffset / LoadOffset with a dead context while the subscriber's context is live is a violation. With a single subscription, a quarter of the runs have a handler that publishes one follow-up event of the same shape when it is handed an event with id = 1 mod 3 by live delivery (at most 6 follow-ups). Every PVal handed to a resumable subscription is compared as a whole with what decoding the stored event yields.",
    "C13": "Error handler by option or by SetPersistenceErrorHandler; WithStore first or last among the options; publishes optionally carry a context with its own 10 s deadline; invalid json.RawMessage events.",
    "C16": "Registrations optionally given as WithUpcast options; after every sequential history one event of each name is replayed with upcasting and the resulting types are compared with the model graph. Explicit cases: a chain of 1200 types and a hub with 1200 targets followed by the registration that would close the loop; a typed upcaster registered before the raw ones whose source type is cleared after them.",
    "C17": "One run in five uses a linear chain of 8-40 steps with the failure anywhere; upcasters optionally by WithUpcast option, error handler by option or setter, optionally a registry history (decoy upcaster registered, then ClearUpcasts / ClearUpcastsForType) before the registrations under test. Optionally one source type of the scenario itself is cleared (ClearUpcastsForType) after all registrations. The typed source carries an interface-typed member with numbers (the upcaster records the dynamic type it was given); a third of the runs hide the store's ReadStream (paged replay); in a quarter the callback cancels the replay's context at one of its first four calls - events handed over afterwards must still be whole-chain results. A quarter of the failure-free runs have a second task replaying with upcasting at the same time; both replays must see whole-chain results.",
    "C18": "Two more collections with explicit entity type names containing the key separator ('<SUser's type name>/admin', 'shop/order'). The reset callback records the number of entities it finds (must be 0); in a third of the runs every resumed session first registers the same collections again. A third of the UpdateWithOldValue messages carry the new value as old value.",
    "C19": "Raw inputs incl. malformed control headers alone and as stray members of change messages; 'hdr' corruption adds or replaces one or two header members (some ill-typed) of a valid message; the decoder model reads the protocol's typed members. Two runs in three (in-memory and SQLite stores) also feed a second materializer through Materializer.Replay in two legs - from the start when the first Split messages are stored, then from its own LastOffset - and compare it leg by leg with one fed event by event (state, LastOffset, error exactly where Apply rejects); one run in six has 10-30 messages; SQLite also as ':memory:' and with batched streaming (2 / 5). Slice and map entities are nil in a tenth of the messages (their encoding is the document null). A third of the runs use strict-schema materializers (an unknown entity type is then rejected, leaving state and LastOffset unchanged).",
    "C20": "Nested publishes from inside handlers; unencodable events on persistent buses; panic values of eight kinds. One registration in six empties the registry (Clear[T] or ClearAll) on its first invocation.",
    "C01": "One run in eight starts with a crowd: 9-20 registrations on one type (most of them Once, some filtered), up to 8 of them unsubscribed again. Filters include the same predicates declared over an interface type (WithFilter[any]).",
    "C08": "A third of the runs have a second publisher task; in a quarter of the single-publisher runs a Once handler and a handler that calls Clear[T] or ClearAll are subscribed behind all others just before the last publish. Half of the cancellable contexts are cancelled with a cause of the caller's own (WithCancelCause) or - for publishes dead before the call - are dead because their deadline has passed; the publish context also carries four values under plain string keys ('event.type', 'async', 'position', 'request-id') that hooks and context-aware handlers must see unchanged.",
    "C09": "A quarter of the runs use a store that ignores its context and takes 1 or 20 ms per Append, next to a 5 ms persistence timeout; with the in-memory store and several publisher tasks, a third of the runs put every other publisher on a second bus created with WithStore of the same store. Event shapes include one whose JSON encoding has an exact length (4096, 32768, 65535, 65536, 65537 or 262144 bytes).",
}
TAPE_NOTE = " Half of the drawn choice tapes end in a tail seed that expands to 4000 further pseudo-random choices (stickiness 3/6/9 in 10), so long runs keep switching tasks after the explicit tape is used up."
PROPS["C14"]["rule"] += " Every other workload is forced to contain a SaveOffset at the latest event, a rewind of that subscription to the first event and one to OffsetOldest; every fourth opens a second handle on the file and saves one subscription through both handles in turn before closing it."
for _pid, _m in PROPS.items():
    if _pid in RULE_ADDENDA:
        _m["rule"] += " " + RULE_ADDENDA[_pid]
    if _pid != "C14":
        _m["rule"] += TAPE_NOTE
    if _m.get("race_companion"):
        _m["rule"] += " Race companion: %d (quick) / %d (thorough) further cases per worker of the same generator run in a -race build; a report counts only if both racing accesses are in jilio/ebu code." % (_m["race_companion"]["quick"], _m["race_companion"]["thorough"])
        _m["components"] = dict(_m["components"], **{"race detection (companion)": "real Go race detector in a -race build of the instrumented code; happens-before edges of the sync primitives supplied by the shims, scheduler hand-offs hidden; the harness's own shared bookkeeping is reported too and filtered out by frame"})
        _m["assumptions"] = list(_m["assumptions"]) + ["race reports with a racing access outside jilio/ebu code (harness bookkeeping) are discarded"]
