"""C14 - what the SQLite store acknowledged survives reopening and a killed process.

Engine "crashkill": real processes, the real store on a real file, faults injected by strace at
file-system-call granularity. A seeded workload script is executed by the child binary
(sim/harness/crashchild), which acknowledges every completed store call on stdout. A dry run
records how many pwrite64 / fsync / fdatasync / ftruncate / unlink calls the workload makes on
the database, WAL and shm files (strace -P); then for EVERY such call the workload is run again
with `-e inject=<call>:signal=KILL:when=<k>` (SIGKILL on entering the k-th call) - or with
`error=ENOSPC|EIO` - and a fresh child reopens the file and dumps log and saved offsets, which
are compared with the acknowledgements. Chained generations continue the workload on the
recovered file and kill again."""
import concurrent.futures, hashlib, json, os, random, shutil, subprocess, sys, tempfile, time

SYSCALLS = ["pwrite64", "fsync", "fdatasync", "ftruncate", "unlink"]


def gen_workload(rng, nops, force_b=False, force_rewind=False):
    ops, appends = [], []
    for i in range(nops):
        # force_rewind: one subscription is saved at the latest event, then set back to the first event, then to
        # the very start (OffsetOldest), with whatever the workload draws in between - every other workload, so that
        # no tier and no seed depends on drawing a rewind by chance
        if force_rewind and len(appends) >= 2 and not any(o.get("forced") for o in ops):
            ops.append({"kind": "save", "sub": "s2", "ack_ix": appends[-1], "forced": 1})
            continue
        if force_rewind and any(o.get("forced") == 1 for o in ops) and not any(o.get("forced") == 2 for o in ops) and i >= nops // 2:
            ops.append({"kind": "save", "sub": "s2", "ack_ix": appends[0], "forced": 2})
            continue
        if force_rewind and any(o.get("forced") == 2 for o in ops) and not any(o.get("forced") == 3 for o in ops) and i == nops - 1:
            ops.append({"kind": "save", "sub": "s2", "ack_ix": -1, "forced": 3})
            continue
        if force_b and i == 1:
            ops.append({"kind": "open-b"})
            continue
        # ... while it is open, one subscription is saved through both handles in turn, ending on a position the
        # first handle has saved before (what a handle remembers of its own saves says nothing about the file)
        dance = [o for o in ops if o.get("dance")]
        if force_b and i > 1 and len(appends) >= 2 and len(dance) < 3 and not any(o["kind"] == "close-b" for o in ops):
            k = len(dance)
            ops.append({"kind": "save", "sub": "s1", "ack_ix": appends[0] if k != 1 else appends[-1], "via_b": k == 1, "dance": 1})
            continue
        if force_b and i >= max(3, nops // 2) and (len(dance) == 3 or i >= nops - 1) and not any(o["kind"] == "close-b" for o in ops):
            ops.append({"kind": "close-b"})
            continue
        r = rng.random()
        if r < 0.6 or not appends:
            ops.append({"kind": "append", "type": rng.choice(["T", "order.created", "ü"]),
                        "data": json.dumps({"i": i, "pad": "x" * rng.choice([0, 10, 3000])}),
                        "sec": rng.randint(1, 2_000_000_000), "nano": rng.choice([0, 1, 999_999_999])})
            appends.append(i)
        elif r < 0.8:
            prev = [o for o in ops if o["kind"] == "save"]
            if prev and rng.random() < 0.4:
                # the caller repeats its last SaveOffset (what a retry after an error looks like)
                ops.append(dict(prev[-1]))
            elif prev and rng.random() < 0.3:
                # rewind: the same subscription is set back to the first event of the log, or to the very start
                # (OffsetOldest, which is what LoadOffset reports for a subscription that has never saved)
                ops.append({"kind": "save", "sub": prev[-1]["sub"], "ack_ix": appends[0] if rng.random() < 0.5 else -1})
            else:
                ops.append({"kind": "save", "sub": rng.choice(["s1", "s2"]), "ack_ix": rng.choice(appends)})
        elif r < 0.87:
            ops.append({"kind": "close-reopen"})
        elif r < 0.93:
            # a second handle on the same file is opened, and closed again a little later, while the first stays in use
            ops.append({"kind": "open-b" if not any(o["kind"] == "open-b" for o in ops) or ops[-1]["kind"] == "close-b" else "close-b"})
        else:
            ops.append({"kind": "read"})
    return ops


def run_child(child, db, script_path, inject=None, timeout=60):
    """Runs one generation; returns (stdout lines, per-syscall counts from the trace, killed?)."""
    trace = db + ".trace"
    cmd = ["strace", "-f", "-o", trace, "-e", "trace=" + ",".join(SYSCALLS)]
    if inject:
        cmd += ["-e", "inject=" + inject]
    for suf in ("", "-wal", "-shm", "-journal"):
        cmd += ["-P", db + suf]
    cmd += [child, "run", db, script_path]
    r = subprocess.run(cmd, capture_output=True, text=True, timeout=timeout)
    counts = {s: 0 for s in SYSCALLS}
    killed = False
    shape = []
    if os.path.exists(trace):
        for line in open(trace):
            parts = line.split(None, 1)
            if len(parts) < 2:
                continue
            rest = parts[1]
            name = rest.split("(", 1)[0]
            if name in counts:
                counts[name] += 1
                shape.append(name)
            if "killed by SIGKILL" in rest:
                killed = True
        os.remove(trace)
    return r.stdout.splitlines(), counts, killed, r.returncode, shape


def dump(child, db, subs):
    r = subprocess.run([child, "dump", db] + subs, capture_output=True, text=True, timeout=60)
    try:
        return json.loads(r.stdout.strip().splitlines()[-1])
    except Exception:
        return {"err": "dump failed: " + (r.stdout + r.stderr)[-300:], "events": None, "saved": {}, "schema_rows": -1, "events_second_open": None}


def parse_acks(lines):
    """op index -> ('ACK'|'NACK'|'SKIP', value)"""
    res, opened, done = {}, False, False
    for l in lines:
        p = l.split(" ", 2)
        if p[0] in ("ACK", "NACK", "SKIP") and len(p) >= 2:
            res[int(p[1])] = (p[0], p[2] if len(p) > 2 else "")
        elif p[0] == "OPENED":
            opened = True
        elif p[0] == "DONE":
            done = True
    return res, opened, done


def oracle(gens, dumped):
    """gens: list of (ops, acks, crashed) per generation, in order. Returns a list of violation strings."""
    v = []
    if dumped.get("err"):
        return ["reopening the database failed: " + dumped["err"]]
    events = dumped.get("events") or []
    if dumped.get("events_second_open") != dumped.get("events"):
        v.append("opening the database a second time shows a different log than the first open")
    if dumped.get("schema_rows") != 1:
        v.append("schema_version has %s rows after reopening (idempotent migration expected: 1)" % dumped.get("schema_rows"))
    # expected sequence
    must, may = [], set()   # flattened appends with status
    seq = []
    saved_expect = {}
    for gi, (ops, acks, crashed) in enumerate(gens):
        inflight_seen = False
        for i, op in enumerate(ops):
            st = acks.get(i)
            status = None
            if st is not None:
                status = st[0]
            elif crashed and not inflight_seen:
                status = "INFLIGHT"
                inflight_seen = True
            else:
                status = "NOT-RUN"
            if op["kind"] == "append":
                seq.append((gi, i, op, status, st[1] if st else None))
            elif op["kind"] == "save":
                sub = op["sub"]
                e = saved_expect.setdefault(sub, {"acked": "", "maybe": set()})
                if status == "ACK":
                    e["acked"] = st[1]
                    e["maybe"] = set()
                elif status in ("INFLIGHT", "NACK"):
                    # the offset it tried to save: that of the referenced append, if acknowledged
                    ref = acks.get(op["ack_ix"])
                    if ref and ref[0] == "ACK":
                        e["maybe"].add(ref[1])
                    if op["ack_ix"] == -1:
                        e["maybe"].add("<oldest>")
    j = 0
    prev_off = 0
    for (gi, i, op, status, ackoff) in seq:
        present = False
        if j < len(events):
            e = events[j]
            same = e["type"] == op["type"] and e["data"] == op["data"] and e["unix_ns"] == op["sec"] * 1_000_000_000 + op["nano"]
            if same:
                present = True
        if status == "ACK":
            if not present:
                v.append("acknowledged event (generation %d op %d, offset %s) is missing or out of place after reopening; log position %d holds %s" % (gi, i, ackoff, j, json.dumps(events[j])[:160] if j < len(events) else "nothing"))
                continue
            if events[j]["offset"] != ackoff:
                v.append("event acknowledged with offset %s is stored under offset %s" % (ackoff, events[j]["offset"]))
        elif status in ("NACK", "INFLIGHT"):
            pass  # may or may not be there
        else:
            present = False  # never attempted: must not be there (an extra event is caught below)
        if present:
            try:
                o = int(events[j]["offset"])
            except ValueError:
                o = -1
            if o <= prev_off:
                v.append("offsets do not increase: %d after %d" % (o, prev_off))
            prev_off = o
            j += 1
    if j < len(events):
        v.append("the log holds %d events that were never acknowledged, in flight or attempted: first %s" % (len(events) - j, json.dumps(events[j])[:160]))
    for sub, e in saved_expect.items():
        got = (dumped.get("saved") or {}).get(sub, "")
        # "the start of the log" may come back under another name than it was saved under: what counts is that a
        # read resumed from the loaded offset returns the whole log
        at_start = (dumped.get("resume") or {}).get(sub) == len(events)
        if e["acked"] == "" and at_start:
            continue  # last acknowledged save was a rewind to the start, or nothing was ever saved
        if "<oldest>" in e["maybe"] and at_start:
            continue  # the in-flight rewind to the start took effect
        if e["acked"] != "" and got == e["acked"]:
            continue
        if got in e["maybe"]:
            continue
        if e["acked"] == "":
            v.append("LoadOffset(%s) = %r after reopening resumes at %s of %d events; the last acknowledged SaveOffset set the subscription back to the start of the log (in-flight candidates %s)" % (sub, got, (dumped.get("resume") or {}).get(sub), len(events), sorted(e["maybe"])))
        else:
            v.append("LoadOffset(%s) = %r after reopening; last acknowledged SaveOffset was %r (in-flight candidates %s)" % (sub, got, e["acked"], sorted(e["maybe"])))
    return v


class Case:
    def __init__(self, wid, gens_ops, injects):
        self.wid, self.gens_ops, self.injects = wid, gens_ops, injects  # injects: per generation inject string or None


def execute_case(child, workdir, case, subs=("s1", "s2")):
    d = tempfile.mkdtemp(prefix="c14-", dir=workdir)
    try:
        db = os.path.join(d, "events.db")
        gens = []
        fired = []
        shapes = []
        for gi, ops in enumerate(case.gens_ops):
            sp = os.path.join(d, "script%d.json" % gi)
            json.dump(ops, open(sp, "w"))
            inj = case.injects[gi] if gi < len(case.injects) else None
            lines, counts, killed, rc, shape = run_child(child, db, sp, inj)
            acks, opened, done = parse_acks(lines)
            shapes.append(shape)
            if inj and "signal=KILL" in inj:
                if not killed:
                    return {"landed": False, "violations": [], "counts": counts, "shape": shapes}
                fired.append(inj)
            elif inj:
                fired.append(inj)
            elif not done:
                return {"landed": False, "violations": ["HARNESS: fault-free generation did not finish: " + " | ".join(lines[-3:])], "counts": counts, "harness": True, "shape": shapes}
            if not opened and not killed:
                # the store could not even be opened (e.g. ENOSPC during migration): nothing acknowledged
                pass
            gens.append((ops, acks, killed))
        dumped = dump(child, db, list(subs))
        return {"landed": True, "violations": oracle(gens, dumped), "fired": fired, "counts": counts, "shape": shapes,
                "gens": [[o for o in g[0]] for g in gens]}
    finally:
        shutil.rmtree(d, ignore_errors=True)


def main(pid, tier, chk):
    meta = chk.PROPS[pid]
    seed = int(os.environ.get("VERIF_SEED", "1"))
    print("check: property=%s tier=%s VERIF_SEED=%d (crashkill engine: real processes + strace injection)" % (pid, tier, seed))
    t0 = time.time()
    n_workloads, err_samples, chain_samples, budget = (8, 200, 30, 40) if tier == "quick" else (120, 2000, 600, 1500)
    with chk.Scratch(instrumented=False) as sc:
        child = sc.build_bin("./crashchild", "crashchild")
        workdir = os.path.join(sc.dir, "runs")
        os.makedirs(workdir)
        probe = subprocess.run(["strace", "-o", "/dev/null", "-e", "trace=write", "true"], capture_output=True)
        if probe.returncode != 0:
            chk.die("strace/ptrace is not available here: " + probe.stderr.decode()[-200:])
        rng = random.Random(seed * 7919 + 13)
        cases, dry = [], {}
        pool = concurrent.futures.ThreadPoolExecutor(max_workers=chk.NCPU)
        # (every fourth workload has, for certain, a second handle that is opened early and closed cleanly while the
        # first handle goes on appending and saving)
        workloads = [gen_workload(random.Random(seed * 100003 + w), (rng.randint(3, 14) if tier == "quick" else rng.randint(3, 40)) + (4 if w % 4 == 3 else 0), force_b=(w % 4 == 3), force_rewind=(w % 2 == 1)) for w in range(n_workloads)]
        # dry runs: syscall shape of every workload (twice: the shape must be stable, else crash points do not replay)
        futs = {w: (pool.submit(execute_case, child, workdir, Case(w, [workloads[w]], [None])),
                    pool.submit(execute_case, child, workdir, Case(w, [workloads[w]], [None]))) for w in range(n_workloads)}
        viol, harness_err, unstable = [], [], []
        total_points = 0
        for w, (f1, f2) in futs.items():
            r1, r2 = f1.result(), f2.result()
            if r1.get("harness") or r1["violations"]:
                (harness_err if r1.get("harness") else viol).append(("dry run of workload %d" % w, r1["violations"], Case(w, [workloads[w]], [None])))
                continue
            if r1["shape"] != r2["shape"]:
                # SQLite occasionally issues a couple of extra page writes (about one fault-free run in ten to
                # twenty of a long workload): the k-th call is then not the same logical point in every run.
                # Harmless for the verdict - the oracle compares acknowledgements with the reopened file wherever
                # the kill landed - but a replay of such a workload may need several attempts; counted here.
                unstable.append(w)
            dry[w] = r1["counts"]
            for s in SYSCALLS:
                for k in range(1, r1["counts"][s] + 1):
                    cases.append(Case(w, [workloads[w]], ["%s:signal=KILL:when=%d" % (s, k)]))
                    total_points += 1
        kill_cases = len(cases)
        # disk errors: ENOSPC / EIO on the k-th write or sync
        for _ in range(err_samples):
            w = rng.randrange(n_workloads)
            if w not in dry:
                continue
            s = rng.choice(["pwrite64", "pwrite64", "fsync", "ftruncate"])
            if dry[w][s] == 0:
                continue
            cases.append(Case(w, [workloads[w]], ["%s:error=%s:when=%d" % (s, rng.choice(["ENOSPC", "EIO"]), rng.randint(1, dry[w][s]))]))
        # chained generations: kill, recover, continue the workload, kill again (counts differ after recovery, so sampled)
        for _ in range(chain_samples):
            w = rng.randrange(n_workloads)
            if w not in dry:
                continue
            s1 = rng.choice(["pwrite64", "pwrite64", "fsync"])
            if dry[w][s1] == 0:
                continue
            g2 = gen_workload(random.Random(rng.random()), rng.randint(2, 8))
            g3 = gen_workload(random.Random(rng.random()), rng.randint(1, 5))
            inj2 = "%s:signal=KILL:when=%d" % (rng.choice(["pwrite64", "fsync"]), rng.randint(1, 12))
            cases.append(Case(w, [workloads[w], g2, g3], ["%s:signal=KILL:when=%d" % (s1, rng.randint(1, dry[w][s1])), inj2, None]))
        results = list(pool.map(lambda c: (c, execute_case(child, workdir, c)), cases))
        landed = 0
        fired = {}
        distinct = set()
        samples = []
        for c, r in results:
            if r.get("harness"):
                harness_err.append(("workload %d" % c.wid, r["violations"], c))
                continue
            if not r["landed"]:
                continue
            landed += 1
            distinct.add((c.wid, tuple(c.injects)))
            for f in r.get("fired", []):
                k = f.split(":")[0] + ":" + f.split(":")[1].split("=")[-1]
                fired[k] = fired.get(k, 0) + 1
            if r["violations"]:
                viol.append(("workload %d, faults %s" % (c.wid, c.injects), r["violations"], c))
            elif len(samples) < 3:
                samples.append({"workload": c.gens_ops[0][:6], "n_ops": len(c.gens_ops[0]), "generations": len(c.gens_ops), "faults": c.injects, "verdict": "log = acknowledged events (+ at most the one in flight), offsets saved as acknowledged"})
        wall = time.time() - t0
        known = {}
        if os.path.exists(chk.known_path()):
            for k in json.load(open(chk.known_path())).get("known", []):
                if k["property"] == pid:
                    known[k["sig"]] = k["what"]
        evidence = {
            "property_id": pid, "tier": tier, "seed": seed, "level": "fault_enumeration",
            "coverage": {
                "evaluations": landed, "distinct_nontrivial": len(distinct),
                "rule": meta["rule"], "samples": samples or [{"note": "no sample"}],
                "workloads": n_workloads, "workloads_with_every_crash_point_enumerated": len(dry),
                "workloads_whose_two_fault_free_runs_differed_in_their_syscall_sequence": len(unstable),
                "crash_points_enumerated": kill_cases, "disk_error_cases": err_samples, "chained_generation_cases": chain_samples,
                "cases_where_the_fault_landed": landed, "faults_fired": fired,
                "syscalls_per_workload": {str(w): dry[w] for w in sorted(dry)[:5]},
                "runs_per_hour": int(landed / wall * 3600) if wall > 0 else 0,
                "exhaustive": False, "exhaustive_note": "every file system call of each generated single-generation workload is used as a SIGKILL point; workloads, disk errors and chained generations are sampled",
                "components": meta["components"], "build_s": round(sc.build_s, 1),
            },
            "assumptions": meta["assumptions"], "wall_s": round(wall, 2), "violations": len(viol),
        }
        if chk.REPO == "/repo":
            os.makedirs(os.path.join(chk.VERIF, "evidence"), exist_ok=True)
            json.dump(evidence, open(os.path.join(chk.VERIF, "evidence", pid + ".json"), "w"), indent=1)
            if tier == "thorough":
                os.makedirs(os.path.join(chk.VERIF, "evidence", "thorough"), exist_ok=True)
                json.dump(evidence, open(os.path.join(chk.VERIF, "evidence", "thorough", pid + ".json"), "w"), indent=1)
        if viol:
            what, vs, c = viol[0]
            os.makedirs(os.path.join(chk.VERIF, "replays"), exist_ok=True)
            body = {"property": pid, "engine": "crashkill", "seed": seed, "generations": c.gens_ops if c else [], "injects": c.injects if c else [],
                    "violations": [{"kind": "durability", "msg": m} for m in vs],
                    "note": "re-run with ./check replay <this file>: same scripts, same strace injections"}
            h = hashlib.sha1(json.dumps(body, sort_keys=True).encode()).hexdigest()[:8]
            rp = os.path.join(chk.VERIF, "replays", "C14-%d-%s.json" % (seed, h))
            json.dump(body, open(rp, "w"), indent=1)
            print("VIOLATION property=%s replay=%s\n  %s\n  %s" % (pid, rp, what, "\n  ".join(vs[:4])))
            print("  (%d failing cases in total)" % len(viol))
            return 1
        if harness_err:
            for what, vs, _ in harness_err[:3]:
                print("check: harness trouble: %s %s" % (what, vs), file=sys.stderr)
            return 2
        if landed == 0:
            chk.die("no injected fault landed")
        print("check: %s held on %d fault runs (%d workloads, every one of %d file-system calls used as a kill point, %d disk-error and %d chained cases; %.1fs)" % (
            pid, landed, len(dry), kill_cases, err_samples, chain_samples, wall))
        return 0


def replay(path, chk):
    rf = json.load(open(path))
    with chk.Scratch(instrumented=False) as sc:
        child = sc.build_bin("./crashchild", "crashchild")
        workdir = os.path.join(sc.dir, "runs")
        os.makedirs(workdir)
        landed_once = False
        for attempt in range(6):  # the system-call sequence of a workload is identical in most, not all, runs
            r = execute_case(child, workdir, Case(0, rf["generations"], rf["injects"]))
            landed_once = landed_once or r["landed"]
            if r["landed"] and r["violations"]:
                print("VIOLATION property=C14 replay=%s (attempt %d)\n  %s" % (path, attempt + 1, "\n  ".join(r["violations"][:4])))
                return 1
        if not landed_once:
            print("REPLAY-DIVERGED property=C14: the injected fault did not land (the workload's system-call sequence changed)")
            return 2
        print("REPLAY-OK property=C14: the recorded violation does not occur on this tree")
        return 0
