// Command crashchild is the workload process of the C14 check: it drives the real
// SQLite store on a real file and acknowledges every completed operation on stdout,
// so that the parent can kill it (strace fault injection) at any file system call and
// compare what it had acknowledged with what a fresh process finds after reopening.
//
//	crashchild run  <db> <script.json>   execute the script; print "ACK <op#> <result>" after each op
//	crashchild dump <db> <ids...>        reopen twice, print the log, the saved offsets and the schema rows as JSON
package main

import (
	"context"
	"database/sql"
	"encoding/json"
	"fmt"
	"os"
	"strconv"
	"time"

	eventbus "github.com/jilio/ebu"
	"github.com/jilio/ebu/stores/sqlite"
	_ "modernc.org/sqlite"
)

type Op struct {
	Kind  string `json:"kind"` // append save close-reopen read
	Type  string `json:"type,omitempty"`
	Data  string `json:"data,omitempty"`
	Sec   int64  `json:"sec,omitempty"`
	Nano  int64  `json:"nano,omitempty"`
	Sub   string `json:"sub,omitempty"`
	AckIx int    `json:"ack_ix,omitempty"` // save: save the offset acknowledged by that earlier append op; -1: OffsetOldest (rewind to the start)
	ViaB  bool   `json:"via_b,omitempty"`  // save: through the second handle, if it is open
}

type Dump struct {
	Events []DEvent          `json:"events"`
	Saved  map[string]string `json:"saved"`
	Resume map[string]int    `json:"resume"` // per subscription: how many events a Read from its loaded offset returns
	Schema int               `json:"schema_rows"`
	Second []DEvent          `json:"events_second_open"`
	Err    string            `json:"err,omitempty"`
}

type DEvent struct {
	Offset string `json:"offset"`
	Type   string `json:"type"`
	Data   string `json:"data"`
	UnixNs int64  `json:"unix_ns"`
}

func ack(i int, res string) {
	os.Stdout.Write([]byte(fmt.Sprintf("ACK %d %s\n", i, res)))
}

func fail(msg string) {
	os.Stdout.Write([]byte("ERR " + msg + "\n"))
}

func run(db, script string) int {
	data, err := os.ReadFile(script)
	if err != nil {
		fail(err.Error())
		return 3
	}
	var ops []Op
	if err := json.Unmarshal(data, &ops); err != nil {
		fail(err.Error())
		return 3
	}
	st, err := sqlite.New(db)
	if err != nil {
		fail("open: " + err.Error())
		return 4
	}
	os.Stdout.Write([]byte("OPENED\n"))
	ctx := context.Background()
	acks := map[int]string{}
	var stB *sqlite.SQLiteStore
	for i, op := range ops {
		switch op.Kind {
		case "append":
			off, err := st.Append(ctx, &eventbus.Event{Type: op.Type, Data: json.RawMessage(op.Data), Timestamp: time.Unix(op.Sec, op.Nano).UTC()})
			if err != nil {
				os.Stdout.Write([]byte(fmt.Sprintf("NACK %d %v\n", i, err)))
				continue
			}
			acks[i] = string(off)
			ack(i, string(off))
		case "save":
			off, ok := acks[op.AckIx]
			if op.AckIx == -1 {
				off, ok = string(eventbus.OffsetOldest), true // what LoadOffset reports for a subscription that never saved
			}
			if !ok {
				os.Stdout.Write([]byte(fmt.Sprintf("SKIP %d\n", i)))
				continue
			}
			saver := st
			if op.ViaB && stB != nil {
				saver = stB // the other component of the process saves this one
			}
			if err := saver.SaveOffset(ctx, op.Sub, eventbus.Offset(off)); err != nil {
				os.Stdout.Write([]byte(fmt.Sprintf("NACK %d %v\n", i, err)))
				continue
			}
			ack(i, off)
		case "read":
			evs, _, err := st.Read(ctx, eventbus.OffsetOldest, 0)
			if err != nil {
				os.Stdout.Write([]byte(fmt.Sprintf("NACK %d %v\n", i, err)))
				continue
			}
			ack(i, strconv.Itoa(len(evs)))
		case "open-b":
			// a second handle on the same file (another component of the process); it stays idle
			if stB == nil {
				b, err := sqlite.New(db)
				if err != nil {
					os.Stdout.Write([]byte(fmt.Sprintf("NACK %d open second handle: %v\n", i, err)))
					continue
				}
				stB = b
			}
			ack(i, "second-handle")
		case "close-b":
			// ... and is closed cleanly while the first handle keeps being used
			if stB != nil {
				stB.Close()
				stB = nil
			}
			ack(i, "second-handle-closed")
		case "close-reopen":
			if err := st.Close(); err != nil {
				os.Stdout.Write([]byte(fmt.Sprintf("NACK %d close: %v\n", i, err)))
			}
			st, err = sqlite.New(db)
			if err != nil {
				fail("reopen: " + err.Error())
				return 4
			}
			ack(i, "reopened")
		}
	}
	os.Stdout.Write([]byte("DONE\n"))
	// no Close: the process ends as if killed while idle; the parent decides (it may also send SIGKILL earlier)
	return 0
}

var resume = map[string]int{}

func readAll(db string) ([]DEvent, map[string]string, error) {
	st, err := sqlite.New(db)
	if err != nil {
		return nil, nil, err
	}
	defer st.Close()
	ctx := context.Background()
	evs, _, err := st.Read(ctx, eventbus.OffsetOldest, 0)
	if err != nil {
		return nil, nil, err
	}
	var out []DEvent
	for _, e := range evs {
		out = append(out, DEvent{string(e.Offset), e.Type, string(e.Data), e.Timestamp.UnixNano()})
	}
	saved := map[string]string{}
	for _, id := range os.Args[3:] {
		off, err := st.LoadOffset(ctx, id)
		if err != nil {
			return nil, nil, err
		}
		saved[id] = string(off)
		if rest, _, err := st.Read(ctx, off, 0); err == nil {
			resume[id] = len(rest)
		} else {
			resume[id] = -1
		}
	}
	return out, saved, nil
}

func dump(db string) int {
	var d Dump
	evs, saved, err := readAll(db)
	if err != nil {
		d.Err = err.Error()
	}
	d.Events, d.Saved, d.Resume = evs, saved, map[string]int{}
	for k, v := range resume {
		d.Resume[k] = v
	}
	evs2, _, err := readAll(db) // opening an existing database is idempotent
	if err != nil && d.Err == "" {
		d.Err = "second open: " + err.Error()
	}
	d.Second = evs2
	if raw, err := sql.Open("sqlite", "file:"+db); err == nil {
		raw.QueryRow("SELECT COUNT(*) FROM schema_version").Scan(&d.Schema)
		raw.Close()
	}
	out, _ := json.Marshal(d)
	os.Stdout.Write(append(out, '\n'))
	return 0
}

func main() {
	if len(os.Args) < 3 {
		os.Exit(2)
	}
	switch os.Args[1] {
	case "run":
		os.Exit(run(os.Args[2], os.Args[3]))
	case "dump":
		os.Exit(dump(os.Args[2]))
	}
	os.Exit(2)
}
