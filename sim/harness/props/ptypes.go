package props

import (
	"strings"
	"context"
	"encoding/json"
	"math"
	"reflect"

	eventbus "github.com/jilio/ebu"
)

// Event types used by the persistence properties: every shape of event type
// (value / pointer, no custom name / custom name on value receiver / on pointer receiver).

type PNested struct {
	K string  `json:"k"`
	V []int64 `json:"v"`
}

type PVal struct {
	ID int               `json:"id"`
	S  string            `json:"s"`
	F  float64           `json:"f"`
	N  *PNested          `json:"n,omitempty"`
	M  map[string]int    `json:"m,omitempty"`
	L  []string          `json:"l"`
	X  any               `json:"x,omitempty"` // carries the unencodable payloads of C13
}

type PNamed struct {
	ID   int    `json:"id"`
	Note string `json:"note"`
}

func (PNamed) EventTypeName() string { return "named.event.v1" }

type PPtrNamed struct {
	ID int `json:"id"`
}

func (*PPtrNamed) EventTypeName() string { return "ptr-named.event.v1" }

// PEnv names itself after one of its fields: its persisted type name depends on the value.
type PEnv struct {
	ID   int    `json:"id"`
	Kind string `json:"kind"`
}

func (e PEnv) EventTypeName() string { return "env." + e.Kind }

func mkPEnv(id, variant int) PEnv { return PEnv{ID: id, Kind: []string{"created", "updated", "deleted"}[variant%3]} }

// PSized is an event whose JSON encoding has an exact length: buffer, page and pool thresholds sit at such sizes.
type PSized struct {
	ID  int    `json:"id"`
	Pad string `json:"pad"`
}

var pSizedLens = []int{4096, 65535, 65536, 65537, 32768, 262144}

func mkPSized(id, variant int) PSized {
	want := pSizedLens[variant%len(pSizedLens)]
	base := len(mustJSON(PSized{ID: id}))
	return PSized{ID: id, Pad: strings.Repeat("x", want-base)}
}

// payload variants for PVal
func mkPVal(id, variant int) PVal {
	v := PVal{ID: id, L: []string{}}
	switch variant % 6 {
	case 1:
		v.S, v.F = "héllo <&> \"q\" ✓", -0.5
	case 2:
		v.N = &PNested{K: "", V: []int64{math.MaxInt64, math.MinInt64, 0}}
	case 3:
		v.M = map[string]int{"a": 1, "": 2, "ключ": -3}
		v.L = nil
	case 4:
		v.F = 1.7976931348623157e308
		v.L = []string{"", "x", "\u0000"}
	case 5:
		v.X = map[string]any{"nested": []any{1.5, "two", nil, true}}
	}
	return v
}

// unencodable payloads (C13): 1 channel, 2 func, 3 NaN
func mkUnencodable(id, kind int) PVal {
	v := PVal{ID: id, L: []string{}}
	switch kind {
	case 1:
		v.X = make(chan int)
	case 2:
		v.X = func() {}
	default:
		v.F = math.NaN()
	}
	return v
}

// replayedPVal, when set, is shown every PVal a resumable subscription hands to its handler (by value or by
// pointer), before the handler proper; a check that publishes variant id%6 can compare the whole value.
var replayedPVal func(e PVal)

func notePVal(e PVal) {
	if replayedPVal != nil {
		replayedPVal(e)
	}
}

// pvalIntact: e is what decoding the stored form of mkPVal(e.ID, e.ID%6) yields
func pvalIntact(e PVal) bool {
	var want PVal
	json.Unmarshal(mustJSON(mkPVal(e.ID, e.ID%6)), &want)
	return reflect.DeepEqual(e, want)
}

// shape gives non-generic access to publish/subscribe for one event shape.
type shape struct {
	Name     string
	TypeName string // what EventType reports for events of this shape
	// NameOf, when set, gives the type name of one particular event (for value-dependent names)
	NameOf func(id, variant int) string
	RT       reflect.Type
	Sub      func(bus *eventbus.EventBus, h func(id int), opts ...eventbus.SubscribeOption) error
	Pub      func(bus *eventbus.EventBus, ctx context.Context, id, variant int)
	Marshal  func(id, variant int) []byte
	// Decode unmarshals stored data into the shape's Go type and reports whether it equals the published value
	RoundTrip func(data []byte, id, variant int) bool
	IDOf      func(ev any) (int, bool)
	// SubReplay is SubscribeWithReplay for this shape
	SubReplay func(ctx context.Context, bus *eventbus.EventBus, subID string, h func(id int)) error
}

func mustJSON(v any) []byte {
	b, err := json.Marshal(v)
	if err != nil {
		panic(err)
	}
	return b
}

func pubAny[T any](bus *eventbus.EventBus, ctx context.Context, ev T) {
	if ctx == nil {
		eventbus.Publish(bus, ev)
	} else {
		eventbus.PublishContext(bus, ctx, ev)
	}
}

var shapes = []*shape{
	{
		Name: "value", TypeName: eventbus.EventType(PVal{}), RT: reflect.TypeOf(PVal{}),
		Sub: func(bus *eventbus.EventBus, h func(int), opts ...eventbus.SubscribeOption) error {
			return eventbus.Subscribe(bus, func(e PVal) { h(e.ID) }, opts...)
		},
		Pub:     func(bus *eventbus.EventBus, ctx context.Context, id, v int) { pubAny(bus, ctx, mkPVal(id, v)) },
		Marshal: func(id, v int) []byte { return mustJSON(mkPVal(id, v)) },
		RoundTrip: func(data []byte, id, v int) bool {
			var got PVal
			if json.Unmarshal(data, &got) != nil {
				return false
			}
			var want PVal
			json.Unmarshal(mustJSON(mkPVal(id, v)), &want)
			return reflect.DeepEqual(got, want)
		},
		IDOf: func(ev any) (int, bool) { e, ok := ev.(PVal); return e.ID, ok },
		SubReplay: func(ctx context.Context, bus *eventbus.EventBus, subID string, h func(int)) error {
			return eventbus.SubscribeWithReplay(ctx, bus, subID, func(e PVal) { notePVal(e); h(e.ID) })
		},
	},
	{
		Name: "pointer", TypeName: eventbus.EventType(&PVal{}), RT: reflect.TypeOf(&PVal{}),
		Sub: func(bus *eventbus.EventBus, h func(int), opts ...eventbus.SubscribeOption) error {
			return eventbus.Subscribe(bus, func(e *PVal) { h(e.ID) }, opts...)
		},
		Pub: func(bus *eventbus.EventBus, ctx context.Context, id, v int) {
			x := mkPVal(id, v)
			pubAny(bus, ctx, &x)
		},
		Marshal: func(id, v int) []byte { return mustJSON(mkPVal(id, v)) },
		RoundTrip: func(data []byte, id, v int) bool {
			got := &PVal{}
			if json.Unmarshal(data, got) != nil {
				return false
			}
			var want PVal
			json.Unmarshal(mustJSON(mkPVal(id, v)), &want)
			return reflect.DeepEqual(*got, want)
		},
		IDOf: func(ev any) (int, bool) {
			e, ok := ev.(*PVal)
			if !ok || e == nil {
				return 0, false
			}
			return e.ID, true
		},
		SubReplay: func(ctx context.Context, bus *eventbus.EventBus, subID string, h func(int)) error {
			return eventbus.SubscribeWithReplay(ctx, bus, subID, func(e *PVal) { notePVal(*e); h(e.ID) })
		},
	},
	{
		Name: "named-value", TypeName: "named.event.v1", RT: reflect.TypeOf(PNamed{}),
		Sub: func(bus *eventbus.EventBus, h func(int), opts ...eventbus.SubscribeOption) error {
			return eventbus.Subscribe(bus, func(e PNamed) { h(e.ID) }, opts...)
		},
		Pub: func(bus *eventbus.EventBus, ctx context.Context, id, v int) {
			pubAny(bus, ctx, PNamed{ID: id, Note: mkPVal(id, v).S})
		},
		Marshal: func(id, v int) []byte { return mustJSON(PNamed{ID: id, Note: mkPVal(id, v).S}) },
		RoundTrip: func(data []byte, id, v int) bool {
			var got PNamed
			return json.Unmarshal(data, &got) == nil && got == PNamed{ID: id, Note: mkPVal(id, v).S}
		},
		IDOf: func(ev any) (int, bool) { e, ok := ev.(PNamed); return e.ID, ok },
		SubReplay: func(ctx context.Context, bus *eventbus.EventBus, subID string, h func(int)) error {
			return eventbus.SubscribeWithReplay(ctx, bus, subID, func(e PNamed) { h(e.ID) })
		},
	},
	{
		Name: "named-pointer-receiver", TypeName: "ptr-named.event.v1", RT: reflect.TypeOf(&PPtrNamed{}),
		Sub: func(bus *eventbus.EventBus, h func(int), opts ...eventbus.SubscribeOption) error {
			return eventbus.Subscribe(bus, func(e *PPtrNamed) { h(e.ID) }, opts...)
		},
		Pub:     func(bus *eventbus.EventBus, ctx context.Context, id, v int) { pubAny(bus, ctx, &PPtrNamed{ID: id}) },
		Marshal: func(id, v int) []byte { return mustJSON(&PPtrNamed{ID: id}) },
		RoundTrip: func(data []byte, id, v int) bool {
			got := &PPtrNamed{}
			return json.Unmarshal(data, got) == nil && got.ID == id
		},
		IDOf: func(ev any) (int, bool) {
			e, ok := ev.(*PPtrNamed)
			if !ok || e == nil {
				return 0, false
			}
			return e.ID, true
		},
		SubReplay: func(ctx context.Context, bus *eventbus.EventBus, subID string, h func(int)) error {
			return eventbus.SubscribeWithReplay(ctx, bus, subID, func(e *PPtrNamed) { h(e.ID) })
		},
	},
}

func (sh *shape) nameOf(id, variant int) string {
	if sh.NameOf != nil {
		return sh.NameOf(id, variant)
	}
	return sh.TypeName
}

// numStaticShapes: shapes[0:numStaticShapes] have a type name that does not depend on the value.
const numStaticShapes = 4

func init() {
	shapes = append(shapes, &shape{
		Name: "value-dependent-name", TypeName: "env.", RT: reflect.TypeOf(PEnv{}),
		NameOf: func(id, v int) string { return eventbus.EventType(mkPEnv(id, v)) },
		Sub: func(bus *eventbus.EventBus, h func(int), opts ...eventbus.SubscribeOption) error {
			return eventbus.Subscribe(bus, func(e PEnv) { h(e.ID) }, opts...)
		},
		Pub:     func(bus *eventbus.EventBus, ctx context.Context, id, v int) { pubAny(bus, ctx, mkPEnv(id, v)) },
		Marshal: func(id, v int) []byte { return mustJSON(mkPEnv(id, v)) },
		RoundTrip: func(data []byte, id, v int) bool {
			var got PEnv
			return json.Unmarshal(data, &got) == nil && got == mkPEnv(id, v)
		},
		IDOf: func(ev any) (int, bool) { e, ok := ev.(PEnv); return e.ID, ok },
		SubReplay: func(ctx context.Context, bus *eventbus.EventBus, subID string, h func(int)) error {
			return eventbus.SubscribeWithReplay(ctx, bus, subID, func(e PEnv) { h(e.ID) })
		},
	})
}

func init() {
	shapes = append(shapes, &shape{
		Name: "exact-size", TypeName: eventbus.EventType(PSized{}), RT: reflect.TypeOf(PSized{}),
		Sub: func(bus *eventbus.EventBus, h func(int), opts ...eventbus.SubscribeOption) error {
			return eventbus.Subscribe(bus, func(e PSized) { h(e.ID) }, opts...)
		},
		Pub:     func(bus *eventbus.EventBus, ctx context.Context, id, v int) { pubAny(bus, ctx, mkPSized(id, v)) },
		Marshal: func(id, v int) []byte { return mustJSON(mkPSized(id, v)) },
		RoundTrip: func(data []byte, id, v int) bool {
			var got PSized
			return json.Unmarshal(data, &got) == nil && got == mkPSized(id, v)
		},
		IDOf: func(ev any) (int, bool) { e, ok := ev.(PSized); return e.ID, ok },
		SubReplay: func(ctx context.Context, bus *eventbus.EventBus, subID string, h func(int)) error {
			return eventbus.SubscribeWithReplay(ctx, bus, subID, func(e PSized) { h(e.ID) })
		},
	})
}

// storedID extracts the "id" member of a stored JSON document.
func storedID(data []byte) (int, bool) {
	var d struct {
		ID *int `json:"id"`
	}
	if json.Unmarshal(data, &d) != nil || d.ID == nil {
		return 0, false
	}
	return *d.ID, true
}
