package props

import (
	"context"
	"fmt"
	"strings"
	"testing"
	"time"

	eventbus "github.com/jilio/ebu"
	ebuotel "github.com/jilio/ebu/otel"
	"go.opentelemetry.io/otel/codes"
	sdkmetric "go.opentelemetry.io/otel/sdk/metric"
	"go.opentelemetry.io/otel/sdk/metric/metricdata"
	sdktrace "go.opentelemetry.io/otel/sdk/trace"
	"go.opentelemetry.io/otel/sdk/trace/tracetest"
	"go.opentelemetry.io/otel/trace"
	"pgregory.net/rapid"

	"ebusim/core"
	"simshim/simrt"
)

// C20 — observability callbacks are balanced, nested and truthful.

type C20Reg struct {
	Fn      int     `json:"fn"`
	Opts    SubOpts `json:"opts"`
	PanicOn []int   `json:"panic_on,omitempty"`
	Cancels bool    `json:"cancels,omitempty"` // cancels the publish context on its first invocation
	Yields  int     `json:"yields"`
	// Clears (1 Clear of the event type, 2 ClearAll): on its first invocation the handler empties the registry from
	// inside the publish - whose Once handlers then have nothing left to be removed from; the publish still completes
	Clears int `json:"clears,omitempty"`
	Nested  bool    `json:"nested,omitempty"` // on its first invocation publishes an event of a second type from inside the handler (with its own context if context-aware)
}

type C20Pub struct {
	ID      int `json:"id"`
	CtxKind int `json:"ctx"` // 0 Publish, 1 live cancellable, 2 already cancelled
	Bad     int `json:"bad,omitempty"` // >0: an event of another type that has no JSON encoding (no append attempt, so no persist pair)
}

type C20Scenario struct {
	core.Base
	Type      int        `json:"type"`
	Regs      []C20Reg   `json:"regs"`
	Pubs      [][]C20Pub `json:"pubs"`
	Persist   bool       `json:"persist"`
	Plan      FaultPlan  `json:"plan"`
	TimeoutMs int        `json:"timeout_ms,omitempty"`
	OTel      bool       `json:"otel"` // real OpenTelemetry implementation on SDK recorders instead of the token recorder
	// OTelSpans: 0 every span sampled and recorded; 1 the sampler drops every trace (non-recording spans);
	// 2 metrics only (no tracer provider configured). The counters must be exact in all three.
	OTelSpans int `json:"otel_spans,omitempty"`
}

func genC20(rt *rapid.T) core.Scenario {
	sc := &C20Scenario{Type: rapid.IntRange(0, len(allTypes)-1).Draw(rt, "type")}
	n := rapid.IntRange(0, 5).Draw(rt, "nRegs")
	for i := 0; i < n; i++ {
		fn := i
		if rapid.Bool().Draw(rt, "ctxAware") {
			fn = numSites + i
		}
		r := C20Reg{Fn: fn, Yields: rapid.IntRange(0, 2).Draw(rt, "yields")}
		r.Opts = SubOpts{Async: rapid.IntRange(0, 2).Draw(rt, "async") == 2, Seq: rapid.IntRange(0, 2).Draw(rt, "seq") == 2,
			Once: rapid.IntRange(0, 4).Draw(rt, "once") == 4, Filter: rapid.SampledFrom([]int{0, 0, 0, 1, 2}).Draw(rt, "filter")}
		if rapid.IntRange(0, 2).Draw(rt, "panics") == 2 {
			r.PanicOn = rapid.SliceOfNDistinct(rapid.IntRange(0, 3), 1, 2, rapid.ID[int]).Draw(rt, "panicOn")
		}
		r.Cancels = rapid.IntRange(0, 4).Draw(rt, "cancels") == 4
		r.Nested = rapid.IntRange(0, 4).Draw(rt, "nested") == 4
		if rapid.IntRange(0, 5).Draw(rt, "clears") == 5 {
			r.Clears = rapid.IntRange(1, 2).Draw(rt, "clearKind")
		}
		sc.Regs = append(sc.Regs, r)
	}
	np := rapid.IntRange(1, 2).Draw(rt, "nPublishers")
	id := 0
	total := 0
	for p := 0; p < np; p++ {
		k := rapid.IntRange(1, 4).Draw(rt, "nPubs")
		var l []C20Pub
		for i := 0; i < k; i++ {
			id++
			pb := C20Pub{ID: id*2 + rapid.IntRange(0, 1).Draw(rt, "parity"), CtxKind: rapid.SampledFrom([]int{0, 1, 1, 2}).Draw(rt, "ctx")}
			if rapid.IntRange(0, 7).Draw(rt, "unencodable") == 7 {
				pb.Bad = rapid.IntRange(1, 3).Draw(rt, "badKind")
			}
			l = append(l, pb)
			total++
		}
		sc.Pubs = append(sc.Pubs, l)
	}
	sc.Persist = rapid.Bool().Draw(rt, "persist")
	if sc.Persist {
		idx := rapid.SliceOfNDistinct(rapid.IntRange(0, total), 0, 3, rapid.ID[int])
		sc.Plan.FailAppend = idx.Draw(rt, "failAppend")
		sc.TimeoutMs = rapid.SampledFrom([]int{0, 0, 10}).Draw(rt, "timeout")
		if sc.TimeoutMs > 0 {
			sc.Plan.BlockAppend = idx.Draw(rt, "blockAppend")
		}
	}
	sc.OTel = rapid.Bool().Draw(rt, "otel")
	if sc.OTel {
		sc.OTelSpans = rapid.SampledFrom([]int{0, 0, 0, 1, 2}).Draw(rt, "otelSpans")
	}
	sc.Tape = core.DrawTape(rt, 400)
	return sc
}

// ---- (i) token recorder: every start callback returns a context carrying a fresh token

type tokKey struct{ kind string }

type obsEv struct {
	Kind    string // pub-start pub-done h-start h-done p-start p-done
	Tok     int    // own token (start: created; done: the token of that kind visible in the context)
	PubTok  int    // publish token visible in the context
	Err     bool
	Async   bool
	Stamp   int64
	Task    int
	EvID    int
	HasEvID bool
}

type obsRec struct {
	evs  []obsEv
	next int
	rec  *core.Recorder
	idOf func(any) (int, bool)
}

func tokOf(ctx context.Context, kind string) int {
	if v, ok := ctx.Value(tokKey{kind}).(int); ok {
		return v
	}
	return 0
}

func (o *obsRec) add(e obsEv) {
	if simrt.Dying() {
		return
	}
	e.Stamp = o.rec.Add("obs-"+e.Kind, e.Tok, e.PubTok, "")
	if t := simrt.Current(); t != nil {
		e.Task = t.ID
	}
	o.evs = append(o.evs, e)
}

func (o *obsRec) OnPublishStart(ctx context.Context, eventType string, event any) context.Context {
	o.next++
	id, ok := o.idOf(event)
	o.add(obsEv{Kind: "pub-start", Tok: o.next, EvID: id, HasEvID: ok})
	return context.WithValue(ctx, tokKey{"pub"}, o.next)
}
func (o *obsRec) OnPublishComplete(ctx context.Context, eventType string) {
	o.add(obsEv{Kind: "pub-done", Tok: tokOf(ctx, "pub"), PubTok: tokOf(ctx, "pub")})
}
func (o *obsRec) OnHandlerStart(ctx context.Context, eventType string, async bool) context.Context {
	o.next++
	o.add(obsEv{Kind: "h-start", Tok: o.next, PubTok: tokOf(ctx, "pub"), Async: async})
	return context.WithValue(ctx, tokKey{"h"}, o.next)
}
func (o *obsRec) OnHandlerComplete(ctx context.Context, d time.Duration, err error) {
	o.add(obsEv{Kind: "h-done", Tok: tokOf(ctx, "h"), PubTok: tokOf(ctx, "pub"), Err: err != nil})
}
func (o *obsRec) OnPersistStart(ctx context.Context, eventType string, position int64) context.Context {
	o.next++
	o.add(obsEv{Kind: "p-start", Tok: o.next, PubTok: tokOf(ctx, "pub")})
	return context.WithValue(ctx, tokKey{"p"}, o.next)
}
func (o *obsRec) OnPersistComplete(ctx context.Context, d time.Duration, err error) {
	o.add(obsEv{Kind: "p-done", Tok: tokOf(ctx, "p"), PubTok: tokOf(ctx, "pub"), Err: err != nil})
}

type c20Inv struct {
	Reg, Ev  int
	Panicked bool
	Enter    int64
	Task     int
	HTok     int // handler token seen in the handler's own context (context-aware handlers)
	Async    bool
}

func (sc *C20Scenario) Execute(t *testing.T) *core.Outcome {
	out := &core.Outcome{}
	var w *World
	ops := allTypes[sc.Type]
	var rec core.Recorder
	var invs []*c20Inv
	var or *obsRec
	var sr *tracetest.SpanRecorder
	var reader *sdkmetric.ManualReader
	var fc *fcore
	appendOutcomes := []string{}
	regOfFn := map[int]int{}
	for i, r := range sc.Regs {
		regOfFn[r.Fn] = i
	}
	nPubs := 0
	for _, l := range sc.Pubs {
		nPubs += len(l)
	}
	nestedPubs := 0
	typeB := (sc.Type + 1) % len(allTypes)
	var rm metricdata.ResourceMetrics
	body := func() {
		var opts []eventbus.Option
		if sc.OTel {
			sr = tracetest.NewSpanRecorder()
			tpOpts := []sdktrace.TracerProviderOption{sdktrace.WithSpanProcessor(sr)}
			if sc.OTelSpans == 1 {
				tpOpts = append(tpOpts, sdktrace.WithSampler(sdktrace.NeverSample()))
			}
			tp := sdktrace.NewTracerProvider(tpOpts...)
			reader = sdkmetric.NewManualReader()
			mp := sdkmetric.NewMeterProvider(sdkmetric.WithReader(reader))
			oo := []ebuotel.Option{ebuotel.WithMeterProvider(mp)}
			if sc.OTelSpans != 2 {
				oo = append(oo, ebuotel.WithTracerProvider(tp))
			}
			o, err := ebuotel.New(oo...)
			if err != nil {
				out.HarnessErr = err.Error()
				return
			}
			opts = append(opts, eventbus.WithObservability(o))
			defer tp.Shutdown(context.Background())
			defer mp.Shutdown(context.Background())
		} else {
			or = &obsRec{rec: &rec, idOf: ops.IDOf}
			opts = append(opts, eventbus.WithObservability(or))
		}
		if sc.Persist {
			fc = newFcore(eventbus.NewMemoryStore(), sc.Plan, &rec)
			fc.OnAppendResult = func(ev *eventbus.Event, outcome string) { appendOutcomes = append(appendOutcomes, outcome) }
			opts = append(opts, eventbus.WithStore(fc.wrap(false)))
			if sc.TimeoutMs > 0 {
				opts = append(opts, eventbus.WithPersistenceTimeout(time.Duration(sc.TimeoutMs)*time.Millisecond))
			}
		}
		w = NewWorld(opts...)
		w.Rec = core.Recorder{}
		calls := map[int]int{}
		cancelFn := map[int]context.CancelFunc{}
		w.OnInvoke = func(ti, fn, uid int, ctx context.Context, id int) {
			if uid == 50 { // the single synchronous handler of the second type
				iv := &c20Inv{Reg: -1, Ev: id}
				iv.Enter = rec.Add("enter-nested", 0, id, "")
				if tk := simrt.Current(); tk != nil {
					iv.Task = tk.ID
				}
				invs = append(invs, iv)
				return
			}
			ri := regOfFn[fn]
			r := sc.Regs[ri]
			iv := &c20Inv{Reg: ri, Ev: id, Async: r.Opts.Async}
			iv.Enter = rec.Add("enter", ri, id, "")
			if tk := simrt.Current(); tk != nil {
				iv.Task = tk.ID
			}
			if ctx != nil {
				iv.HTok = tokOf(ctx, "h")
			}
			invs = append(invs, iv)
			k := calls[ri]
			calls[ri]++
			for i := 0; i < r.Yields; i++ {
				simrt.Yield(siteHandler)
			}
			if r.Nested && k == 0 {
				nctx := ctx
				if nctx == nil {
					nctx = context.Background()
				}
				nestedPubs++
				allTypes[typeB].Pub(w, nctx, 7000+id)
			}
			if r.Clears != 0 && k == 0 {
				out.Fault("clear-during-publish")
				if r.Clears == 2 {
					clearAll(w)
				} else {
					ops.Clear(w)
				}
			}
			if r.Cancels && k == 0 {
				if c := cancelFn[id]; c != nil {
					c()
					simrt.Yield(siteHandler)
				}
			}
			for _, p := range r.PanicOn {
				if p == k {
					iv.Panicked = true
					out.Fault("handler-panic")
					switch (ri + k) % 8 { // panic values of every kind: string, error, int, struct, slice, and values whose own methods panic
					case 0:
						panic(fmt.Sprintf("handler %d panics", ri))
					case 1:
						panic(fmt.Errorf("handler %d fails", ri))
					case 2:
						panic(42 + ri)
					case 3:
						panic(customPanic{ri})
					case 4:
						panic([]int{ri, k})
					case 5:
						var e error = (*ptrErr)(nil)
						panic(e)
					case 6:
						panic((*ptrStringer)(nil))
					default:
						panic(panickyErr{ri})
					}
				}
			}
		}
		for i, r := range sc.Regs {
			if err := w.SubscribeUID(sc.Type, r.Fn, i, r.Opts); err != nil {
				out.HarnessErr = err.Error()
				return
			}
		}
		if err := w.SubscribeUID(typeB, 0, 50, SubOpts{}); err != nil {
			out.HarnessErr = err.Error()
			return
		}
		var tasks []*simrt.Task
		for pi, l := range sc.Pubs {
			l := l
			tasks = append(tasks, simrt.GoNamed(fmt.Sprintf("pub%d", pi), func() {
				for _, p := range l {
					var ctx context.Context
					if p.CtxKind > 0 {
						c, cancel := context.WithCancel(context.Background())
						ctx, cancelFn[p.ID] = c, cancel
						if p.CtxKind == 2 {
							cancel()
						}
					}
					rec.Add("pub", p.ID, p.CtxKind, "")
					if p.Bad > 0 {
						if ctx == nil {
							ctx = context.Background()
						}
						eventbus.PublishContext(w.Bus, ctx, mkUnencodable(p.ID, p.Bad))
						rec.Add("pub-ret", p.ID, 0, "")
						continue
					}
					ops.Pub(w, ctx, p.ID)
					rec.Add("pub-ret", p.ID, 0, "")
				}
			}))
		}
		simrt.Join(tasks...)
		w.Bus.Wait()
		if sc.OTel {
			if err := reader.Collect(context.Background(), &rm); err != nil {
				out.HarnessErr = "collect: " + err.Error()
			}
		}
	}
	rep, herr := core.Sim(t, &sc.Base, nil, body)
	out.Rep = rep
	if out.HarnessErr == "" {
		out.HarnessErr = herr
	}
	if rep == nil || out.HarnessErr != "" {
		return out
	}
	out.LogHash = rec.Hash()
	out.SimTime = rep.FakeDuration
	out.Nontrivial = true
	if rep.BudgetExceeded {
		out.HarnessErr = "step budget exceeded"
		return out
	}
	for _, p := range rep.Panics {
		out.V("escaped-panic", "%s: %s\n%s", p.Task, p.Value, p.Stack)
	}
	if rep.Deadlock {
		out.V("deadlock", "%s", rep.DeadlockInfo)
		return out
	}
	nPanics, nAppend, nAppendFail := 0, len(appendOutcomes), 0
	for _, iv := range invs {
		if iv.Panicked {
			nPanics++
		}
	}
	for _, o := range appendOutcomes {
		if o != "ok" {
			nAppendFail++
			out.Fault("append-" + o)
		}
	}
	nPubs += nestedPubs
	if !sc.OTel {
		sc.checkTokens(out, or, invs, nPubs, appendOutcomes)
	} else {
		sc.checkOTel(out, sr, &rm, invs, nPubs, nPanics, nAppend, nAppendFail)
	}
	out.Summary = fmt.Sprintf("%d regs, %d publishes, persist=%v plan=%+v, otel=%v: %d handler runs, %d panics, %d appends (%d failed)", len(sc.Regs), nPubs, sc.Persist, sc.Plan, sc.OTel, len(invs), nPanics, nAppend, nAppendFail)
	return out
}

func (sc *C20Scenario) checkTokens(out *core.Outcome, or *obsRec, invs []*c20Inv, nPubs int, appendOutcomes []string) {
	starts := map[string]map[int]obsEv{"pub": {}, "h": {}, "p": {}}
	dones := map[string]map[int][]obsEv{"pub": {}, "h": {}, "p": {}}
	kindOf := map[string]string{"pub-start": "pub", "pub-done": "pub", "h-start": "h", "h-done": "h", "p-start": "p", "p-done": "p"}
	for _, e := range or.evs {
		k := kindOf[e.Kind]
		if strings.HasSuffix(e.Kind, "start") {
			starts[k][e.Tok] = e
		} else {
			if e.Tok == 0 {
				out.V("complete-without-start-context", "%s callback received a context that does not come from its start callback", e.Kind)
				continue
			}
			dones[k][e.Tok] = append(dones[k][e.Tok], e)
		}
	}
	name := map[string]string{"pub": "publish", "h": "handler", "p": "persist"}
	for k, ss := range starts {
		for tok, s := range ss {
			ds := dones[k][tok]
			if len(ds) != 1 {
				out.V("unbalanced-callbacks", "%s start #%d has %d matching complete callbacks (matched by the context the start returned)", name[k], tok, len(ds))
				continue
			}
			if ds[0].Stamp < s.Stamp {
				out.V("unbalanced-callbacks", "%s complete ran before its start", name[k])
			}
			if k != "pub" {
				if s.PubTok == 0 || ds[0].PubTok != s.PubTok {
					out.V("context-not-descended-from-publish", "%s callbacks of token #%d see publish token %d at start and %d at complete: handler and persist contexts must descend from the publish context", name[k], tok, s.PubTok, ds[0].PubTok)
				} else if ps, ok := starts["pub"][s.PubTok]; !ok || ps.Stamp > s.Stamp {
					out.V("context-not-descended-from-publish", "%s start precedes its publish start", name[k])
				}
			}
		}
	}
	for k, dd := range dones {
		for tok := range dd {
			if _, ok := starts[k][tok]; !ok {
				out.V("unbalanced-callbacks", "%s complete for token #%d without a start", name[k], tok)
			}
		}
	}
	if len(starts["pub"]) != nPubs {
		out.V("publish-pair-count", "%d publish start callbacks for %d publishes", len(starts["pub"]), nPubs)
	}
	// one handler pair per actual invocation: link each invocation to the handler start that precedes it on its task
	if len(starts["h"]) != len(invs) {
		out.V("handler-pair-count", "%d handler start callbacks for %d handler invocations (a skipped, filtered or dead-context delivery must not be reported)", len(starts["h"]), len(invs))
	}
	used := map[int]bool{}
	for _, iv := range invs {
		best := obsEv{}
		for _, s := range starts["h"] {
			if s.Task == iv.Task && s.Stamp < iv.Enter && s.Stamp > best.Stamp && !used[s.Tok] {
				best = s
			}
		}
		if best.Tok == 0 {
			out.V("handler-pair-count", "invocation of registration %d for event %d has no handler start callback before it on its goroutine", iv.Reg, iv.Ev)
			continue
		}
		used[best.Tok] = true
		if iv.HTok != 0 && iv.HTok != best.Tok {
			out.V("handler-context", "context-aware handler %d received a context that is not the one its handler start returned", iv.Reg)
		}
		if best.Async != iv.Async {
			out.V("handler-async-flag", "handler start for registration %d reported async=%v, registration is async=%v", iv.Reg, best.Async, iv.Async)
		}
		if ds := dones["h"][best.Tok]; len(ds) == 1 {
			if ds[0].Err != iv.Panicked {
				out.V("handler-error-untruthful", "handler complete for registration %d event %d carries error=%v, the handler panicked=%v", iv.Reg, iv.Ev, ds[0].Err, iv.Panicked)
			}
			if ds[0].Stamp < iv.Enter {
				out.V("unbalanced-callbacks", "handler complete before the handler ran")
			}
			// publish complete comes after every synchronous handler complete of that publish
			if !iv.Async {
				if pd := dones["pub"][best.PubTok]; len(pd) == 1 && pd[0].Stamp < ds[0].Stamp {
					out.V("publish-complete-early", "publish complete (#%d) before the synchronous handler complete (#%d) of the same publish", pd[0].Stamp, ds[0].Stamp)
				}
			}
		}
		if ps, ok := starts["pub"][best.PubTok]; ok && ps.HasEvID && ps.EvID != iv.Ev {
			out.V("context-not-descended-from-publish", "handler invocation for event %d runs under the publish context of event %d", iv.Ev, ps.EvID)
		}
	}
	// one persist pair per append attempt, error exactly when it failed
	if len(starts["p"]) != len(appendOutcomes) {
		out.V("persist-pair-count", "%d persist start callbacks for %d append attempts", len(starts["p"]), len(appendOutcomes))
	} else {
		nErr := 0
		for _, dd := range dones["p"] {
			for _, d := range dd {
				if d.Err {
					nErr++
				}
			}
		}
		nFail := 0
		for _, o := range appendOutcomes {
			if o != "ok" {
				nFail++
			}
		}
		if nErr != nFail {
			out.V("persist-error-untruthful", "%d persist complete callbacks carry an error, %d appends failed", nErr, nFail)
		}
	}
}

func sumCounter(rm *metricdata.ResourceMetrics, name string) int64 {
	var total int64
	for _, sm := range rm.ScopeMetrics {
		for _, m := range sm.Metrics {
			if m.Name != name {
				continue
			}
			if s, ok := m.Data.(metricdata.Sum[int64]); ok {
				for _, dp := range s.DataPoints {
					total += dp.Value
				}
			}
		}
	}
	return total
}

func (sc *C20Scenario) checkOTel(out *core.Outcome, sr *tracetest.SpanRecorder, rm *metricdata.ResourceMetrics, invs []*c20Inv, nPubs, nPanics, nAppend, nAppendFail int) {
	check := func(what string, got, want int) {
		if got != want {
			out.V("otel-count", "%s: %d, true number %d (span mode %d)", what, got, want, sc.OTelSpans)
		}
	}
	defer func() {
		check("counter eventbus.publish.count", int(sumCounter(rm, "eventbus.publish.count")), nPubs)
		check("counter eventbus.handler.count", int(sumCounter(rm, "eventbus.handler.count")), len(invs))
		check("counter eventbus.handler.errors", int(sumCounter(rm, "eventbus.handler.errors")), nPanics)
		check("counter eventbus.persist.count", int(sumCounter(rm, "eventbus.persist.count")), nAppend)
		check("counter eventbus.persist.errors", int(sumCounter(rm, "eventbus.persist.errors")), nAppendFail)
	}()
	if sc.OTelSpans != 0 {
		return // no recorded spans to inspect: only the counters
	}
	started, ended := sr.Started(), sr.Ended()
	endCount := map[trace.SpanID]int{}
	for _, s := range ended {
		endCount[s.SpanContext().SpanID()]++
	}
	pubSpans := map[trace.SpanID]bool{}
	kinds := map[string]int{}
	errSpans := map[string]int{}
	for _, s := range started {
		id := s.SpanContext().SpanID()
		if endCount[id] != 1 {
			out.V("span-not-ended-once", "span %q was started once and ended %d times", s.Name(), endCount[id])
		}
		switch {
		case strings.HasPrefix(s.Name(), "eventbus.publish"):
			pubSpans[id] = true
			kinds["publish"]++
		case strings.HasPrefix(s.Name(), "eventbus.handler"):
			kinds["handler"]++
		case strings.HasPrefix(s.Name(), "eventbus.persist"):
			kinds["persist"]++
		}
	}
	for _, s := range ended {
		k := ""
		switch {
		case strings.HasPrefix(s.Name(), "eventbus.handler"):
			k = "handler"
		case strings.HasPrefix(s.Name(), "eventbus.persist"):
			k = "persist"
		default:
			continue
		}
		if !pubSpans[s.Parent().SpanID()] {
			out.V("span-parent", "%s span %q is not a child of a publish span", k, s.Name())
		}
		if s.Status().Code == codes.Error {
			errSpans[k]++
		}
	}
	if len(ended) != len(started) {
		out.V("span-not-ended-once", "%d spans started, %d ended", len(started), len(ended))
	}
	check("publish spans", kinds["publish"], nPubs)
	check("handler spans", kinds["handler"], len(invs))
	check("persist spans", kinds["persist"], nAppend)
	check("handler spans with error status", errSpans["handler"], nPanics)
	check("persist spans with error status", errSpans["persist"], nAppendFail)
}

var propC20 = &core.Property{ID: "C20", Gen: genC20, New: func() core.Scenario { return &C20Scenario{} }}

func TestC20(t *testing.T) { core.RunProperty(t, propC20) }
