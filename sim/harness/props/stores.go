package props

import (
	"io"
	"context"
	"errors"
	"fmt"
	"iter"
	"net/http"
	"net/http/httptest"
	"os"
	"path/filepath"
	"strings"
	"time"

	dsproto "github.com/ahimsalabs/durable-streams-go/durablestream"
	"github.com/ahimsalabs/durable-streams-go/durablestream/memorystorage"
	eventbus "github.com/jilio/ebu"
	dstore "github.com/jilio/ebu/stores/durablestream"
	"github.com/jilio/ebu/stores/sqlite"

	"ebusim/core"
	"simshim/simrt"
)

// StoreCfg selects one of the bundled stores and its knobs.
type StoreCfg struct {
	Kind         string `json:"kind"`                    // mem, sqlite, ds
	HideStreamer bool   `json:"hide_streamer,omitempty"` // force Replay onto the paged path
	StreamBatch  int    `json:"stream_batch,omitempty"`  // sqlite.WithStreamBatchSize
	ChunkSize    int    `json:"chunk,omitempty"`         // durable-streams server chunk size in bytes (0 = default)
	InMemory     bool   `json:"in_memory,omitempty"`     // sqlite: the ":memory:" path instead of a file
	// ShortReads: the decorated store returns only about half of the events a Read asked for (with the
	// matching next offset) although more remain - legal for an EventStore, whose limit is a maximum,
	// and what a store that pages by bytes does.
	ShortReads bool `json:"short_reads,omitempty"`
	// Instr: the store is opened with its optional instrumentation (sqlite: metrics hook, logger, a short busy
	// timeout, and no auto-migration when the file was already migrated by an earlier open; durable-streams: logger)
	Instr bool `json:"instr,omitempty"`
	// AltOpts (harness-internal, for the second store of an isolation check): the store is created with
	// non-default options (durable-streams: another content type and a logger), which must not leak into
	// stores created with defaults
	AltOpts bool `json:"-"`
}

func (c StoreCfg) String() string {
	s := c.Kind
	if c.HideStreamer {
		s += "+paged"
	}
	if c.StreamBatch > 0 {
		s += fmt.Sprintf("+batch%d", c.StreamBatch)
	}
	if c.ChunkSize > 0 {
		s += fmt.Sprintf("+chunk%d", c.ChunkSize)
	}
	if c.InMemory {
		s += "+:memory:"
	}
	if c.Instr {
		s += "+instr"
	}
	if c.ShortReads {
		s += "+shortreads"
	}
	return s
}

// storeEnv owns the real resources of one run (temp dir, open databases, in-process servers).
// yieldingMetrics is a sqlite.MetricsHook whose callbacks are decision points of the schedule.
type yieldingMetrics struct{}

func (yieldingMetrics) OnAppend(time.Duration, error)     { simrt.Yield(siteStoreOp) }
func (yieldingMetrics) OnRead(time.Duration, int, error)  { simrt.Yield(siteStoreOp) }
func (yieldingMetrics) OnSaveOffset(time.Duration, error) { simrt.Yield(siteStoreOp) }
func (yieldingMetrics) OnLoadOffset(time.Duration, error) { simrt.Yield(siteStoreOp) }

// nopLogger satisfies the Logger interfaces of both the sqlite and the durable-streams store.
type nopLogger struct{}

func (nopLogger) Debug(string, ...any)  {}
func (nopLogger) Info(string, ...any)   {}
func (nopLogger) Error(string, ...any)  {}
func (nopLogger) Printf(string, ...any) {}

type storeEnv struct {
	migrated map[string]bool
	dir     string
	closers []func()
	servers map[string]*dsServer
	n       int
}

func newStoreEnv() *storeEnv { return &storeEnv{servers: map[string]*dsServer{}} }

func (e *storeEnv) tempDir() string {
	if e.dir == "" {
		base := os.Getenv("TMPDIR")
		if _, err := os.Stat("/dev/shm"); err == nil && os.Getenv("VERIF_NO_SHM") == "" {
			base = "/dev/shm"
		}
		d, err := os.MkdirTemp(base, "ebusim-run-")
		if err != nil {
			panic(err)
		}
		e.dir = d
	}
	return e.dir
}

func (e *storeEnv) Close() {
	for i := len(e.closers) - 1; i >= 0; i-- {
		e.closers[i]()
	}
	e.closers = nil
	if e.dir != "" {
		os.RemoveAll(e.dir)
		e.dir = ""
	}
}

// dsServer is an in-process durable-streams server: the real protocol handler over
// the real in-memory storage, reached through an http.RoundTripper instead of a socket.
type dsServer struct {
	handler http.Handler
	// fault plan for the transport: request index -> "lost-request" | "lost-response"
	Faults map[int]string
	nReq   int
	Fired  map[string]int
	// GETs only counter, for read-fault addressing
	nGet      int
	GetFaults map[int]string
	// DelayGet: the j-th GET is held for this long (simulated time) before the server sees it, or until
	// the request's context is done - whichever comes first
	DelayGet map[int]time.Duration
	// DelayPost: likewise for the j-th POST (an append that stalls on the wire)
	nPost     int
	DelayPost map[int]time.Duration
}

func newDSServer(chunk int) *dsServer {
	var cfg *dsproto.HandlerConfig
	if chunk > 0 {
		cfg = &dsproto.HandlerConfig{ChunkSize: chunk}
	}
	h := dsproto.NewHandler(memorystorage.New(), cfg)
	mux := http.NewServeMux()
	mux.Handle("/v1/stream/", http.StripPrefix("/v1/stream/", h))
	return &dsServer{handler: mux, Faults: map[int]string{}, GetFaults: map[int]string{}, Fired: map[string]int{}, DelayGet: map[int]time.Duration{}, DelayPost: map[int]time.Duration{}}
}

var errNet = errors.New("simulated network failure")

func (s *dsServer) RoundTrip(req *http.Request) (*http.Response, error) {
	simrt.Yield(siteStoreOp)
	if err := req.Context().Err(); err != nil {
		return nil, err
	}
	idx := s.nReq
	s.nReq++
	f := s.Faults[idx]
	if req.Method == http.MethodGet {
		if g, ok := s.GetFaults[s.nGet]; ok {
			f = g
		}
		d, delayed := s.DelayGet[s.nGet]
		s.nGet++
		if delayed {
			s.Fired["request-delayed"]++
			tok := simrt.BeforeBlock()
			tm := time.NewTimer(d)
			var cerr error
			select {
			case <-tm.C:
			case <-req.Context().Done():
				cerr = req.Context().Err()
			}
			tm.Stop()
			simrt.AfterBlock(tok)
			if cerr != nil {
				return nil, cerr
			}
		}
	}
	if req.Method == http.MethodPost {
		d, delayed := s.DelayPost[s.nPost]
		s.nPost++
		if delayed {
			s.Fired["post-delayed"]++
			tok := simrt.BeforeBlock()
			tm := time.NewTimer(d)
			var cerr error
			select {
			case <-tm.C:
			case <-req.Context().Done():
				cerr = req.Context().Err()
			}
			tm.Stop()
			simrt.AfterBlock(tok)
			if cerr != nil {
				return nil, cerr // the client gave up: the server never sees the request
			}
		}
	}
	if f == "lost-request" {
		s.Fired["lost-request"]++
		return nil, errNet
	}
	if f == "http-404" || f == "http-500" {
		// the server answers, but with an error status (a proxy hiccup, a stream that is momentarily not routable)
		s.Fired[f]++
		code := map[string]int{"http-404": http.StatusNotFound, "http-500": http.StatusInternalServerError}[f]
		rec := httptest.NewRecorder()
		http.Error(rec, http.StatusText(code), code)
		resp := rec.Result()
		resp.Request = req
		return resp, nil
	}
	rec := httptest.NewRecorder()
	s.handler.ServeHTTP(rec, req)
	simrt.Yield(siteStoreOp)
	if f == "lost-response" {
		s.Fired["lost-response"]++
		return nil, errNet
	}
	resp := rec.Result()
	resp.Request = req
	return resp, nil
}

// storeHang reports whether a run ended because a task was blocked for good inside a call into one of the
// bundled, un-instrumented stores (SQLite through database/sql, durable-streams through its HTTP client): the
// simulator waited a minute of simulated time for it, nothing else was runnable, and the call did not return.
// That is the store's doing - "the call never returns" - not a shortcoming of the harness.
func storeHang(rep *simrt.Report) (string, bool) {
	if rep == nil || rep.RealBlock == "" {
		return "", false
	}
	for _, g := range strings.Split(rep.RealBlock, "\n\n") {
		if !strings.Contains(g, "simrt.(*Sim).taskMain") {
			continue
		}
		if strings.Contains(g, "simrt.(*Sim).park") || strings.Contains(g, "simrt.BlockOn") {
			continue // parked by the scheduler at a decision point (e.g. inside a replay callback): waiting for its turn, not for the store
		}
		for _, marker := range []string{"github.com/jilio/ebu/stores/sqlite.(*SQLiteStore).", "github.com/jilio/ebu/stores/durablestream.(*Store)."} {
			if i := strings.Index(g, marker); i >= 0 {
				line := g[i:]
				if j := strings.IndexByte(line, '\n'); j >= 0 {
					line = line[:j]
				}
				return line, true
			}
		}
	}
	return "", false
}

// openStore opens (or re-opens, for sqlite files and durable-streams servers named by `name`) a store.
func (e *storeEnv) openStore(cfg StoreCfg, name string) (eventbus.EventStore, error) {
	switch cfg.Kind {
	case "mem":
		return eventbus.NewMemoryStore(), nil
	case "naive":
		return &naiveStore{}, nil
	case "sqlite":
		path := filepath.Join(e.tempDir(), name+".db")
		if cfg.InMemory {
			path = ":memory:"
		}
		var opts []sqlite.Option
		if cfg.StreamBatch > 0 {
			opts = append(opts, sqlite.WithStreamBatchSize(cfg.StreamBatch))
		}
		if cfg.Instr {
			opts = append(opts, sqlite.WithMetricsHook(yieldingMetrics{}), sqlite.WithLogger(nopLogger{}), sqlite.WithBusyTimeout(250*time.Millisecond))
			if e.migrated[path] && !cfg.InMemory {
				opts = append(opts, sqlite.WithAutoMigrate(false))
			}
		}
		st, err := sqlite.New(path, opts...)
		if err != nil {
			return nil, err
		}
		if e.migrated == nil {
			e.migrated = map[string]bool{}
		}
		e.migrated[path] = true
		e.closers = append(e.closers, func() { st.Close() })
		return st, nil
	case "ds":
		srv := e.servers[name]
		if srv == nil {
			srv = newDSServer(cfg.ChunkSize)
			e.servers[name] = srv
		}
		dopts := []dstore.Option{dstore.WithHTTPClient(&http.Client{Transport: srv}), dstore.WithTimeout(30 * time.Second)}
		if cfg.Instr {
			dopts = append(dopts, dstore.WithLogger(nopLogger{}))
		}
		if cfg.AltOpts {
			dopts = append(dopts, dstore.WithContentType("text/plain"), dstore.WithLogger(nopLogger{}), dstore.WithTimeout(7*time.Second))
		}
		st, err := dstore.New("http://ds.sim/v1/stream", name, dopts...)
		if err != nil {
			return nil, err
		}
		return st, nil
	}
	return nil, fmt.Errorf("unknown store kind %q", cfg.Kind)
}

// ---------------------------------------------------------------------------
// fault-injecting decorator

// FaultPlan addresses faults by "the k-th call of that kind" (0-based).
type FaultPlan struct {
	FailAppend    []int `json:"fail_append,omitempty"`    // error, no effect
	LostAckAppend []int `json:"lostack_append,omitempty"` // effect, then error
	BlockAppend   []int `json:"block_append,omitempty"`   // block until the context is done, then its error
	FailRead      []int `json:"fail_read,omitempty"`      // Read / ReadStream-open fails
	FailStreamRow []int `json:"fail_stream_row,omitempty"` // the stream yields an error instead of its r-th event (r over the whole run)
	FailSave      []int `json:"fail_save,omitempty"`
	LostAckSave   []int `json:"lostack_save,omitempty"`
	FailLoad      []int `json:"fail_load,omitempty"`
}

func has(l []int, k int) bool {
	for _, x := range l {
		if x == k {
			return true
		}
	}
	return false
}

var errInjected = errors.New("injected store fault")

// errInjectedEOF is a read failure whose identity is io.EOF, wrapped - what net/http reports when a server
// hangs up in the middle of a body. A failure all the same, not the end of the log.
var errInjectedEOF = fmt.Errorf("injected store fault: connection closed: %w", io.EOF)

func (f *fcore) readErr() error {
	if f.ReadFailsWithEOF {
		return errInjectedEOF
	}
	return errInjected
}
var errDeadProcess = errors.New("process incarnation is dead")

type fcore struct {
	inner    eventbus.EventStore
	streamer eventbus.EventStoreStreamer
	sub      eventbus.SubscriptionStore
	plan     FaultPlan
	rec      *core.Recorder
	n        map[string]int
	Fired    map[string]int
	rows     int
	// OnSave is called (with the task still running) whenever an offset becomes durable for an id.
	OnSave func(id string, off eventbus.Offset)
	// OnLoad is called for every LoadOffset that reaches the decorator
	OnLoad func(id string)
	// OnAppend is called when an event became durable.
	OnAppend func(off eventbus.Offset, ev *eventbus.Event)
	// OnAppendResult reports what the caller of Append was told: ok, failed, lost-ack, blocked
	OnAppendResult func(ev *eventbus.Event, outcome string)
	// OnOp is called once per store operation: after its effect, or (CrashBefore) before it.
	// The crash model kills the calling incarnation from inside it.
	OnOp        func()
	CrashBefore bool
	ShortReads  bool
	// HonourCtx: SaveOffset / LoadOffset refuse a context that is already dead, as a database driver does.
	// Not a fault: the caller chose the context.
	HonourCtx bool
	// ReadFailsWithEOF: injected read failures wrap io.EOF
	ReadFailsWithEOF bool
	// InnerAppendErrs: errors the real store returned for appends that no fault of the plan touched and whose
	// own context was still live when they returned
	InnerAppendErrs []string
	// AppendCalls counts calls that reached the decorator (for the no-retry rule)
	AppendCalls int
	AppendCtxErrAtReturn []bool
}

func newFcore(inner eventbus.EventStore, plan FaultPlan, rec *core.Recorder) *fcore {
	f := &fcore{inner: inner, plan: plan, rec: rec, n: map[string]int{}, Fired: map[string]int{}}
	if s, ok := inner.(eventbus.EventStoreStreamer); ok {
		f.streamer = s
	}
	if s, ok := inner.(eventbus.SubscriptionStore); ok {
		f.sub = s
	}
	return f
}

func (f *fcore) next(kind string) int {
	k := f.n[kind]
	f.n[kind] = k + 1
	return k
}

func (f *fcore) fire(kind string) { f.Fired[kind]++ }

func (f *fcore) opBefore() {
	if f.OnOp != nil && f.CrashBefore {
		f.OnOp()
	}
}

func (f *fcore) opAfter() {
	if f.OnOp != nil && !f.CrashBefore {
		f.OnOp()
	}
}

func (f *fcore) Append(ctx context.Context, ev *eventbus.Event) (eventbus.Offset, error) {
	simrt.Yield(siteStoreOp)
	f.opBefore()
	if simrt.Dead() {
		return "", errDeadProcess
	}
	k := f.next("append")
	f.AppendCalls++
	if has(f.plan.BlockAppend, k) {
		f.fire("append-blocks-until-deadline")
		tok := simrt.BeforeBlock()
		<-ctx.Done()
		simrt.AfterBlock(tok)
		f.AppendCtxErrAtReturn = append(f.AppendCtxErrAtReturn, ctx.Err() != nil)
		f.result(ev, "blocked")
		return "", ctx.Err()
	}
	if has(f.plan.FailAppend, k) {
		f.fire("append-fails")
		f.result(ev, "failed")
		return "", errInjected
	}
	off, err := f.inner.Append(ctx, ev)
	if err == nil && f.OnAppend != nil {
		f.OnAppend(off, ev)
	}
	f.opAfter()
	simrt.Yield(siteStoreOp)
	if err == nil && has(f.plan.LostAckAppend, k) {
		f.fire("append-lost-ack")
		f.result(ev, "lost-ack")
		return "", errInjected
	}
	if err != nil {
		if ctx.Err() == nil {
			f.InnerAppendErrs = append(f.InnerAppendErrs, err.Error())
		}
		f.result(ev, "failed")
	} else {
		f.result(ev, "ok")
	}
	return off, err
}

func (f *fcore) result(ev *eventbus.Event, outcome string) {
	if f.OnAppendResult != nil {
		f.OnAppendResult(ev, outcome)
	}
}

func (f *fcore) Read(ctx context.Context, from eventbus.Offset, limit int) ([]*eventbus.StoredEvent, eventbus.Offset, error) {
	simrt.Yield(siteStoreOp)
	f.opBefore()
	if simrt.Dead() {
		return nil, from, errDeadProcess
	}
	k := f.next("read")
	if has(f.plan.FailRead, k) {
		f.fire("read-fails")
		return nil, from, f.readErr()
	}
	evs, next, err := f.inner.Read(ctx, from, limit)
	if err == nil && f.ShortReads && len(evs) > 1 {
		evs = evs[:(len(evs)+1)/2]
		next = evs[len(evs)-1].Offset
		f.fire("short-read")
	}
	f.opAfter()
	simrt.Yield(siteStoreOp)
	if simrt.Dead() {
		return nil, from, errDeadProcess
	}
	return evs, next, err
}

func (f *fcore) ReadStream(ctx context.Context, from eventbus.Offset) iter.Seq2[*eventbus.StoredEvent, error] {
	return func(yield func(*eventbus.StoredEvent, error) bool) {
		simrt.Yield(siteStoreOp)
		f.opBefore()
		if simrt.Dead() {
			yield(nil, errDeadProcess)
			return
		}
		k := f.next("read")
		if has(f.plan.FailRead, k) {
			f.fire("read-fails")
			yield(nil, f.readErr())
			return
		}
		for ev, err := range f.streamer.ReadStream(ctx, from) {
			if err == nil {
				r := f.rows
				f.rows++
				if has(f.plan.FailStreamRow, r) {
					f.fire("stream-row-fails")
					yield(nil, f.readErr())
					return
				}
			}
			f.opAfter() // every streamed row counts as a store operation (a crash can fall between two rows)
			simrt.Yield(siteStoreOp)
			if simrt.Dead() {
				yield(nil, errDeadProcess)
				return
			}
			if !yield(ev, err) {
				return
			}
		}
	}
}

func (f *fcore) SaveOffset(ctx context.Context, id string, off eventbus.Offset) error {
	simrt.Yield(siteStoreOp)
	f.opBefore()
	if simrt.Dead() {
		return errDeadProcess
	}
	if f.HonourCtx && ctx.Err() != nil {
		f.fire("offset-op-with-dead-context")
		f.opAfter()
		return ctx.Err()
	}
	k := f.next("save")
	if has(f.plan.FailSave, k) {
		f.fire("save-fails")
		return errInjected
	}
	err := f.sub.SaveOffset(ctx, id, off)
	if err == nil && f.OnSave != nil {
		f.OnSave(id, off)
	}
	f.opAfter()
	simrt.Yield(siteStoreOp)
	if err == nil && has(f.plan.LostAckSave, k) {
		f.fire("save-lost-ack")
		return errInjected
	}
	return err
}

func (f *fcore) LoadOffset(ctx context.Context, id string) (eventbus.Offset, error) {
	simrt.Yield(siteStoreOp)
	f.opBefore()
	if simrt.Dead() {
		return eventbus.OffsetOldest, errDeadProcess
	}
	if f.OnLoad != nil {
		f.OnLoad(id)
	}
	if f.HonourCtx && ctx.Err() != nil {
		f.fire("offset-op-with-dead-context")
		f.opAfter()
		return eventbus.OffsetOldest, ctx.Err()
	}
	k := f.next("load")
	if has(f.plan.FailLoad, k) {
		f.fire("load-fails")
		return eventbus.OffsetOldest, errInjected
	}
	off, err := f.sub.LoadOffset(ctx, id)
	f.opAfter()
	simrt.Yield(siteStoreOp)
	return off, err
}

// The four interface shapes a store can present to the bus.
type fsPlain struct{ c *fcore }
type fsStream struct{ c *fcore }
type fsSub struct{ c *fcore }
type fsStreamSub struct{ c *fcore }

func (s fsPlain) Append(ctx context.Context, ev *eventbus.Event) (eventbus.Offset, error) {
	return s.c.Append(ctx, ev)
}
func (s fsPlain) Read(ctx context.Context, from eventbus.Offset, limit int) ([]*eventbus.StoredEvent, eventbus.Offset, error) {
	return s.c.Read(ctx, from, limit)
}
func (s fsStream) Append(ctx context.Context, ev *eventbus.Event) (eventbus.Offset, error) {
	return s.c.Append(ctx, ev)
}
func (s fsStream) Read(ctx context.Context, from eventbus.Offset, limit int) ([]*eventbus.StoredEvent, eventbus.Offset, error) {
	return s.c.Read(ctx, from, limit)
}
func (s fsStream) ReadStream(ctx context.Context, from eventbus.Offset) iter.Seq2[*eventbus.StoredEvent, error] {
	return s.c.ReadStream(ctx, from)
}
func (s fsSub) Append(ctx context.Context, ev *eventbus.Event) (eventbus.Offset, error) {
	return s.c.Append(ctx, ev)
}
func (s fsSub) Read(ctx context.Context, from eventbus.Offset, limit int) ([]*eventbus.StoredEvent, eventbus.Offset, error) {
	return s.c.Read(ctx, from, limit)
}
func (s fsSub) SaveOffset(ctx context.Context, id string, off eventbus.Offset) error {
	return s.c.SaveOffset(ctx, id, off)
}
func (s fsSub) LoadOffset(ctx context.Context, id string) (eventbus.Offset, error) {
	return s.c.LoadOffset(ctx, id)
}
func (s fsStreamSub) Append(ctx context.Context, ev *eventbus.Event) (eventbus.Offset, error) {
	return s.c.Append(ctx, ev)
}
func (s fsStreamSub) Read(ctx context.Context, from eventbus.Offset, limit int) ([]*eventbus.StoredEvent, eventbus.Offset, error) {
	return s.c.Read(ctx, from, limit)
}
func (s fsStreamSub) ReadStream(ctx context.Context, from eventbus.Offset) iter.Seq2[*eventbus.StoredEvent, error] {
	return s.c.ReadStream(ctx, from)
}
func (s fsStreamSub) SaveOffset(ctx context.Context, id string, off eventbus.Offset) error {
	return s.c.SaveOffset(ctx, id, off)
}
func (s fsStreamSub) LoadOffset(ctx context.Context, id string) (eventbus.Offset, error) {
	return s.c.LoadOffset(ctx, id)
}

// wrap presents the decorated store with the interface shape of the inner store
// (minus the streamer if hidden).
func (f *fcore) wrap(hideStreamer bool) eventbus.EventStore {
	stream := f.streamer != nil && !hideStreamer
	switch {
	case stream && f.sub != nil:
		return fsStreamSub{f}
	case stream:
		return fsStream{f}
	case f.sub != nil:
		return fsSub{f}
	}
	return fsPlain{f}
}

// subOnly presents only the SubscriptionStore side (for WithSubscriptionStore).
type fsSubOnly struct{ c *fcore }

func (s fsSubOnly) SaveOffset(ctx context.Context, id string, off eventbus.Offset) error {
	return s.c.SaveOffset(ctx, id, off)
}
func (s fsSubOnly) LoadOffset(ctx context.Context, id string) (eventbus.Offset, error) {
	return s.c.LoadOffset(ctx, id)
}

func offLess(a, b eventbus.Offset) bool { return strings.Compare(string(a), string(b)) < 0 }

// naiveStore is a minimal EventStore that, like many simple user-written stores, is not safe for
// concurrent Append on its own: it relies on the bus serialising appends. Its Append reaches a
// decision point between choosing the offset and recording the event.
type naiveStore struct {
	events []*eventbus.StoredEvent
}

func (s *naiveStore) Append(ctx context.Context, ev *eventbus.Event) (eventbus.Offset, error) {
	off := eventbus.Offset(fmt.Sprintf("%020d", len(s.events)+1))
	simrt.Yield(siteStoreOp)
	s.events = append(s.events, &eventbus.StoredEvent{Offset: off, Type: ev.Type, Data: ev.Data, Timestamp: ev.Timestamp})
	return off, nil
}

func (s *naiveStore) Read(ctx context.Context, from eventbus.Offset, limit int) ([]*eventbus.StoredEvent, eventbus.Offset, error) {
	var out []*eventbus.StoredEvent
	next := from
	for _, e := range s.events {
		if from == eventbus.OffsetOldest || e.Offset > from {
			out = append(out, e)
			next = e.Offset
			if limit > 0 && len(out) >= limit {
				break
			}
		}
	}
	return out, next, nil
}
