package props

import (
	"context"
	"errors"
	"fmt"
	"reflect"
	"runtime"
	"testing"

	eventbus "github.com/jilio/ebu"
	"pgregory.net/rapid"

	"ebusim/core"
	"simshim/simrt"
)

// C05 — a panicking handler never harms the publisher or the other handlers.

type C05Reg struct {
	Fn      int     `json:"fn"`
	Opts    SubOpts `json:"opts"`
	PanicOn []int   `json:"panic_on,omitempty"` // invocation numbers (0-based, per registration) on which the handler panics
	Value   int     `json:"value,omitempty"`    // which panic value
}

type C05Scenario struct {
	core.Base
	ShareOpts bool `json:"share_opts,omitempty"` // option values created once and reused by all subscriptions (see World.ShareOptions)
	Type         int      `json:"type"`
	Regs         []C05Reg `json:"regs"`
	Pubs         []int    `json:"pubs"` // event ids, published one after another
	PanicHandler bool     `json:"panic_handler"`
	WaitEach     bool     `json:"wait_each"` // Wait after every publish (otherwise only at the end)
	Obs          bool     `json:"obs,omitempty"`     // bus configured with an Observability
	ViaAny       bool     `json:"via_any,omitempty"` // publish through an interface-typed value (reflection dispatch path)
	PHViaSetter  bool     `json:"ph_via_setter,omitempty"` // install the panic handler with SetPanicHandler after the subscriptions were made
	PHRetries    bool     `json:"ph_retries,omitempty"`    // the panic handler re-enters the bus: it publishes a retry event (id+1000) of the same type
	// PHNil (only without PanicHandler): "no panic handler" is said explicitly - WithPanicHandler(nil) or SetPanicHandler(nil)
	PHNil int `json:"ph_nil,omitempty"` // 0 not mentioned, 1 option with nil, 2 setter with nil
	// ViaReplay: the bus is persistent (MemoryStore) and the registrations are resumable subscriptions
	// (SubscribeWithReplay with the same options) in their live phase: their handlers are wrapped by the library
	ViaReplay bool `json:"via_replay,omitempty"`
	// CancelThenPanic: publishes carry a cancellable context, and a panicking invocation cancels it first
	CancelThenPanic bool `json:"cancel_then_panic,omitempty"`
}

type customPanic struct{ N int }

// Panic values whose own methods misbehave: rendering them (as the bus does for its observability
// error) must not let a second panic escape.
type ptrErr struct{ msg string }

func (e *ptrErr) Error() string { return e.msg } // panics on the typed-nil pointer

type ptrStringer struct{ s string }

func (p *ptrStringer) String() string { return p.s } // panics on the typed-nil pointer

type panickyErr struct{ N int }

func (e panickyErr) Error() string { panic(fmt.Sprintf("Error() of panic value %d panics", e.N)) }

func panicValue(kind, id int) any {
	switch kind {
	case 5:
		var e error = (*ptrErr)(nil)
		return e
	case 6:
		return (*ptrStringer)(nil)
	case 7:
		return panickyErr{id}
	case 1:
		return errors.New("boom")
	case 2:
		return customPanic{id}
	case 3:
		var m map[string]int
		m["x"] = 1 // runtime.Error: assignment to entry in nil map
		return nil
	case 4:
		return nil // panic(nil): recovered as *runtime.PanicNilError
	}
	return fmt.Sprintf("panic-%d", id)
}

func genC05(rt *rapid.T) core.Scenario {
	sc := &C05Scenario{Type: rapid.IntRange(0, len(allTypes)-1).Draw(rt, "type")}
	n := rapid.IntRange(1, 6).Draw(rt, "nRegs")
	for i := 0; i < n; i++ {
		fn := i // distinct function per registration: 0..5; odd ones context-aware
		if i%2 == 1 {
			fn = numSites + i
		}
		r := C05Reg{Fn: fn, Opts: SubOpts{
			Once:   rapid.IntRange(0, 3).Draw(rt, "once") == 3,
			Async:  rapid.IntRange(0, 2).Draw(rt, "async") == 2,
			Seq:    rapid.IntRange(0, 2).Draw(rt, "seq") == 2,
			Filter: rapid.SampledFrom([]int{0, 0, 0, 1, 2}).Draw(rt, "filter"),
		}}
		if rapid.IntRange(0, 2).Draw(rt, "panics") > 0 {
			r.PanicOn = rapid.SliceOfNDistinct(rapid.IntRange(0, 4), 1, 3, rapid.ID[int]).Draw(rt, "panicOn")
			r.Value = rapid.IntRange(0, 7).Draw(rt, "value")
		}
		sc.Regs = append(sc.Regs, r)
	}
	np := rapid.IntRange(1, 6).Draw(rt, "nPubs")
	for i := 0; i < np; i++ {
		sc.Pubs = append(sc.Pubs, (i+1)*2+rapid.IntRange(0, 1).Draw(rt, "parity"))
	}
	sc.PanicHandler = rapid.IntRange(0, 3).Draw(rt, "panicHandler") > 0
	sc.WaitEach = rapid.Bool().Draw(rt, "waitEach")
	sc.Obs = rapid.IntRange(0, 3).Draw(rt, "obs") == 3
	sc.ViaAny = rapid.IntRange(0, 3).Draw(rt, "viaAny") == 3
	sc.PHViaSetter = sc.PanicHandler && rapid.IntRange(0, 2).Draw(rt, "phViaSetter") == 2
	sc.PHRetries = sc.PanicHandler && rapid.IntRange(0, 3).Draw(rt, "phRetries") == 3
	if !sc.PanicHandler {
		sc.PHNil = rapid.IntRange(0, 2).Draw(rt, "phNil")
	}
	sc.ViaReplay = !sc.ViaAny && rapid.IntRange(0, 4).Draw(rt, "viaReplay") == 4
	sc.CancelThenPanic = !sc.ViaReplay && rapid.IntRange(0, 3).Draw(rt, "cancelThenPanic") == 3
	sc.ShareOpts = rapid.IntRange(0, 2).Draw(rt, "shareOpts") == 2
	sc.Tape = core.DrawTape(rt, 300)
	return sc
}

type c05PH struct {
	EvID   int
	EvOK   bool
	HT     reflect.Type
	Value  any
	Reg    int
	During int // publish index during which it was (synchronously) observed, -1 unknown
}

func (sc *C05Scenario) Execute(t *testing.T) *core.Outcome {
	out := &core.Outcome{}
	var w *World
	ops := allTypes[sc.Type]
	cancelledIDs := map[int]bool{} // events whose context a panicking handler cancelled
	invs := map[int][]int{}   // reg index -> event ids received
	calls := map[int]int{}    // reg index -> number of invocations
	var phCalls []c05PH
	var injected []c05PH
	var retries []int
	pubReturned := 0
	waitReturned := false
	finalCount := -1
	regOfFn := map[int]int{}
	for i, r := range sc.Regs {
		regOfFn[r.Fn] = i
	}
	body := func() {
		var opts []eventbus.Option
		ph := func(event any, ht reflect.Type, v any) {
			if simrt.Dying() {
				return
			}
			id, ok := ops.IDOf(event)
			phCalls = append(phCalls, c05PH{EvID: id, EvOK: ok, HT: ht, Value: v})
			w.Rec.Add("panic-handler", id, 0, fmt.Sprint(ht))
			if sc.PHRetries && ok && id < 1000 {
				retries = append(retries, id+1000)
				ops.Pub(w, context.Background(), id+1000) // user code re-entering the bus from the panic handler
			}
		}
		if sc.PanicHandler && !sc.PHViaSetter {
			opts = append(opts, eventbus.WithPanicHandler(ph))
		}
		if sc.PHNil == 1 {
			opts = append(opts, eventbus.WithPanicHandler(nil))
		}
		if sc.Obs {
			opts = append(opts, eventbus.WithObservability(nopObs{}))
		}
		if sc.ViaReplay {
			opts = append(opts, eventbus.WithStore(eventbus.NewMemoryStore()))
		}
		w = NewWorld(opts...)
		w.ShareOptions = sc.ShareOpts
		cancelOf := map[int]context.CancelFunc{}
		w.OnInvoke = func(ti, fn, uid int, ctx context.Context, id int) {
			ri := regOfFn[fn]
			r := sc.Regs[ri]
			w.Rec.Add("enter", ri, id, "")
			invs[ri] = append(invs[ri], id)
			k := calls[ri]
			calls[ri]++
			simrt.Yield(siteHandler)
			for _, p := range r.PanicOn {
				if p == k {
					ht := ops.PlainHT
					if isCtxFn(fn) && !sc.ViaReplay {
						ht = ops.CtxHT
					}
					injected = append(injected, c05PH{EvID: id, HT: ht, Reg: ri, Value: r.Value})
					w.Rec.Add("panic", ri, id, "")
					if c := cancelOf[id]; c != nil {
						c() // the handler gives up on the request, then fails: still a panic like any other
						cancelledIDs[id] = true
					}
					panic(panicValue(r.Value, id))
				}
			}
			w.Rec.Add("exit", ri, id, "")
		}
		for ri, r := range sc.Regs {
			if sc.ViaReplay {
				fn := r.Fn
				var so []eventbus.SubscribeOption
				if r.Opts.Once {
					so = append(so, eventbus.Once())
				}
				if r.Opts.Async {
					so = append(so, eventbus.Async())
				}
				if r.Opts.Seq {
					so = append(so, eventbus.Sequential())
				}
				if r.Opts.Filter != 0 {
					so = append(so, ops.Filt(w, fn, r.Opts.Filter))
				}
				if err := ops.SubReplay(w, context.Background(), fmt.Sprintf("c05-%d", ri), func(id int) { w.OnInvoke(sc.Type, fn, 0, nil, id) }, so...); err != nil {
					out.HarnessErr = err.Error()
					return
				}
				continue
			}
			if err := w.Subscribe(sc.Type, r.Fn, r.Opts); err != nil {
				out.HarnessErr = err.Error()
				return
			}
		}
		if sc.PanicHandler && sc.PHViaSetter {
			w.Bus.SetPanicHandler(ph) // a configuration setter: completed before any concurrent use begins
		}
		if sc.PHNil == 2 {
			w.Bus.SetPanicHandler(nil)
		}
		for _, id := range sc.Pubs {
			w.Rec.Add("pub", id, 0, "")
			pctx := context.Background()
			if sc.CancelThenPanic {
				c, cancel := context.WithCancel(pctx)
				pctx, cancelOf[id] = c, cancel
			}
			if sc.ViaAny {
				ops.PubAny(w, pctx, id)
			} else {
				ops.Pub(w, pctx, id)
			}
			pubReturned++
			if sc.WaitEach {
				w.Bus.Wait()
			}
		}
		w.Bus.Wait()
		waitReturned = true
		finalCount = ops.Count(w)
	}
	rep, herr := core.Sim(t, &sc.Base, nil, body)
	out.Rep = rep
	if out.HarnessErr == "" {
		out.HarnessErr = herr
	}
	if rep == nil || out.HarnessErr != "" {
		return out
	}
	out.LogHash = w.Rec.Hash()
	out.Nontrivial = len(injected) > 0
	for range injected {
		out.Fault("handler-panic")
	}
	if rep.BudgetExceeded {
		out.HarnessErr = "step budget exceeded"
		return out
	}
	for _, p := range rep.Panics {
		out.V("panic-escaped", "a handler panic escaped from %s (publisher or async goroutine): %s", p.Task, p.Value)
	}
	if rep.Deadlock {
		out.V("deadlock-after-panic", "the bus blocked after %d publishes returned (waitReturned=%v):\n%s", pubReturned, waitReturned, rep.DeadlockInfo)
	}
	if len(out.Violations) > 0 {
		return out
	}
	if pubReturned != len(sc.Pubs) || !waitReturned {
		out.V("publish-did-not-return", "%d of %d publishes returned, Wait returned=%v", pubReturned, len(sc.Pubs), waitReturned)
		return out
	}
	// expected deliveries: static registrations, so each registration receives every accepted event once
	// (a Once registration only the first accepted one) whatever the other handlers do
	expectCount, onceMaybeUsedUp := 0, 0
	allPubs := append(append([]int{}, sc.Pubs...), retries...)
	for ri, r := range sc.Regs {
		var want []int
		for _, id := range allPubs {
			if !filterAccepts(r.Opts.Filter, id) {
				continue
			}
			if r.Opts.Once && len(want) == 1 {
				continue
			}
			want = append(want, id)
		}
		got := invs[ri]
		if sc.CancelThenPanic {
			// deliveries of an event whose context a handler cancelled are indeterminate (later handlers are
			// skipped); everything else arrives exactly once, nothing twice
			seen, wanted := map[int]int{}, map[int]int{}
			for _, id := range allPubs {
				if filterAccepts(r.Opts.Filter, id) {
					wanted[id]++ // two panics on one event publish the same retry id twice
				}
			}
			for _, id := range got {
				seen[id]++
				if seen[id] > wanted[id] {
					out.V("delivery-lost-or-duplicated", "registration %d received event %d %d times, published %d times", ri, id, seen[id], wanted[id])
				}
			}
			if r.Opts.Once {
				if len(got) > 1 {
					out.V("delivery-lost-or-duplicated", "once registration %d received %v", ri, got)
				}
			} else {
				for _, id := range want {
					if !cancelledIDs[id] && seen[id] != wanted[id] {
						out.V("delivery-lost-or-duplicated", "registration %d (%+v) received event %d %d times although its context was never cancelled", ri, r.Opts, id, seen[id])
					}
				}
			}
			if !r.Opts.Once {
				expectCount++
			} else if len(got) == 0 {
				// not invoked: still subscribed - unless it was claimed for an event whose context was then
				// cancelled before its (asynchronous) delivery started, which the count below allows for
				expectCount++
				onceMaybeUsedUp++
			}
			continue
		}
		if r.Opts.Once && len(retries) > 0 {
			// with nested retry publishes the Once handler fires for whichever accepted event reaches it first
			if len(want) > 0 && len(got) != 1 {
				out.V("delivery-lost-or-duplicated", "once registration %d received %v", ri, got)
			}
		} else if r.Opts.Async || len(retries) > 0 {
			if !sameMultiset(want, got) {
				out.V("delivery-lost-or-duplicated", "async registration %d (%+v, panics on %v) received %v, expected %v in some order", ri, r.Opts, r.PanicOn, got, want)
			}
		} else if fmt.Sprint(want) != fmt.Sprint(got) {
			out.V("delivery-lost-or-duplicated", "registration %d (%+v, panics on %v) received %v, expected %v", ri, r.Opts, r.PanicOn, got, want)
		}
		if !(r.Opts.Once && len(want) > 0) {
			expectCount++
		}
	}
	if finalCount > expectCount || finalCount < expectCount-onceMaybeUsedUp {
		out.V("count-after-panics", "HandlerCount=%d at the end, expected %d (fired Once handlers stay retired, others stay subscribed)", finalCount, expectCount)
	}
	// panic handler: exactly once per injected panic with event, handler type, value
	if sc.PanicHandler {
		if len(phCalls) != len(injected) {
			out.V("panic-handler-count", "panic handler called %d times for %d handler panics", len(phCalls), len(injected))
		} else {
			used := make([]bool, len(phCalls))
			for _, in := range injected {
				found := false
				for i, c := range phCalls {
					if used[i] || !c.EvOK || c.EvID != in.EvID || c.HT != in.HT {
						continue
					}
					if !panicValueMatches(in.Value.(int), in.EvID, c.Value) {
						continue
					}
					used[i] = true
					found = true
					break
				}
				if !found {
					out.V("panic-handler-args", "no panic handler call matches the panic of registration %d on event %d (handler type %v, value kind %d); calls: %+v", in.Reg, in.EvID, in.HT, in.Value, phCalls)
				}
			}
		}
	} else if len(phCalls) != 0 {
		out.HarnessErr = "panic handler called though none installed"
	}
	out.Summary = fmt.Sprintf("%d regs, %d publishes, %d injected panics, panic handler=%v", len(sc.Regs), len(sc.Pubs), len(injected), sc.PanicHandler)
	return out
}

func panicValueMatches(kind, id int, got any) bool {
	switch kind {
	case 5:
		e, ok := got.(*ptrErr)
		return ok && e == nil
	case 6:
		e, ok := got.(*ptrStringer)
		return ok && e == nil
	case 7:
		return got == panickyErr{id}
	case 1:
		if _, other := got.(panickyErr); other {
			return false // another registration's value on the same event; its Error() panics by design
		}
		e, ok := got.(error)
		return ok && e != nil && !isNilPtr(got) && e.Error() == "boom"
	case 2:
		return got == customPanic{id}
	case 3:
		e, ok := got.(runtime.Error)
		return ok && e.Error() == "assignment to entry in nil map"
	case 4:
		var pn *runtime.PanicNilError // what recover() yields for panic(nil) since Go 1.21
		e, ok := got.(error)
		return got == nil || (ok && errors.As(e, &pn))
	}
	return got == fmt.Sprintf("panic-%d", id)
}

func isNilPtr(v any) bool {
	rv := reflect.ValueOf(v)
	return rv.Kind() == reflect.Pointer && rv.IsNil()
}

func sameMultiset(a, b []int) bool {
	if len(a) != len(b) {
		return false
	}
	m := map[int]int{}
	for _, x := range a {
		m[x]++
	}
	for _, x := range b {
		m[x]--
	}
	for _, v := range m {
		if v != 0 {
			return false
		}
	}
	return true
}

var propC05 = &core.Property{ID: "C05", Gen: genC05, New: func() core.Scenario { return &C05Scenario{} }}

func TestC05(t *testing.T) { core.RunProperty(t, propC05) }
