package props

import (
	"context"
	"encoding/json"
	"fmt"
	"reflect"
	"sort"
	"testing"

	eventbus "github.com/jilio/ebu"
	"github.com/jilio/ebu/state"
	"pgregory.net/rapid"

	"ebusim/core"
)

// C18 — materialized state is the fold of the message log.

type SUser struct {
	Name string            `json:"name,omitempty"`
	Age  int               `json:"age,omitempty"`
	Tags map[string]string `json:"tags,omitempty"`
	// a nested by-value member whose JSON form comes from POINTER-receiver methods: it is only honoured when
	// the entity is marshalled through an addressable value, as decoding always is
	Stamp SStamp `json:"stamp"`
}

// SStamp travels as the JSON string "s<T>".
type SStamp struct{ T int }

func (s *SStamp) MarshalJSON() ([]byte, error) { return json.Marshal(fmt.Sprintf("s%d", s.T)) }
func (s *SStamp) UnmarshalJSON(b []byte) error {
	var str string
	if err := json.Unmarshal(b, &str); err != nil {
		return fmt.Errorf("stamp: want a JSON string, got %s", b)
	}
	_, err := fmt.Sscanf(str, "s%d", &s.T)
	return err
}

type SOrder struct {
	Total int      `json:"total"`
	Items []string `json:"items,omitempty"`
}

type SNamed struct {
	N int `json:"n"`
}

func (SNamed) StateTypeName() string { return "named-entity" }

type SGhost struct {
	X int `json:"x"`
}

// entName is the documented entity type name, computed independently of the library: the custom
// StateTypeName if the entity provides one, else the reflection-based package-qualified type name.
func entName(v any) string {
	if n, ok := v.(interface{ StateTypeName() string }); ok {
		return n.StateTypeName()
	}
	return reflect.TypeOf(v).String()
}

// Explicit entity type names that contain the composite-key separator; the first one also has a registered
// entity type as its prefix up to the separator.
var (
	nameAdmin     = entName(SUser{}) + "/admin"
	nameShopOrder = "shop/order"
)

// (the last three keys begin with an entity type name and the separator: the composite key of such a key is
// "<type>/<type>/k1", distinct from the composite key of "k1")
// compositeKey is the documented composite key "<entity type>/<key>", computed without the library.
func compositeKey(entityType, key string) string { return entityType + "/" + key }

var stateKeys = []string{"k1", "k2", "a/b", "user/1/x", "/", "k1/", entName(SUser{}) + "/k1", entName(SOrder{}) + "/k2", "shop/order/k1"}

type C18Msg struct {
	Op     string `json:"op"`     // insert update delete reset snap-start snap-end
	Entity int    `json:"entity"` // 0 SUser 1 SOrder 2 SNamed 3 SGhost (never registered) 4 SUser as "<SUser's name>/admin" 5 SOrder as "shop/order"
	Key    int    `json:"key"`
	V      int    `json:"v"`
}

type C18Scenario struct {
	core.Base
	Store    StoreCfg `json:"store"`
	Msgs     []C18Msg `json:"msgs"`
	Strict   bool     `json:"strict"`
	Sessions []int    `json:"sessions"` // each entry: the session's read fails after this many events; the last session is fault-free
	Paged    int      `json:"paged,omitempty"` // >0: hide the streamer, replay in pages of this size
	// Reattach: every resumed session starts by registering the same collections again
	Reattach bool `json:"reattach,omitempty"`
}

func genC18(rt *rapid.T) core.Scenario {
	sc := &C18Scenario{Store: StoreCfg{Kind: rapid.SampledFrom([]string{"mem", "mem", "mem", "sqlite"}).Draw(rt, "store")}}
	n := rapid.IntRange(1, 40).Draw(rt, "nMsgs")
	for i := 0; i < n; i++ {
		m := C18Msg{Op: rapid.SampledFrom([]string{"insert", "insert", "update", "update", "delete", "delete", "reset", "snap-start", "snap-end"}).Draw(rt, "op"),
			Entity: rapid.SampledFrom([]int{0, 0, 1, 1, 2, 3, 4, 5}).Draw(rt, "entity"), Key: rapid.IntRange(0, len(stateKeys)-1).Draw(rt, "key"), V: rapid.IntRange(0, 9).Draw(rt, "v")}
		sc.Msgs = append(sc.Msgs, m)
	}
	sc.Strict = rapid.IntRange(0, 3).Draw(rt, "strict") == 3
	sc.Reattach = rapid.IntRange(0, 2).Draw(rt, "reattach") == 2
	ns := rapid.IntRange(0, 2).Draw(rt, "nInterrupted")
	for i := 0; i < ns; i++ {
		sc.Sessions = append(sc.Sessions, rapid.IntRange(0, n).Draw(rt, "failAfter"))
	}
	if rapid.IntRange(0, 2).Draw(rt, "paged") == 2 {
		sc.Paged = rapid.IntRange(1, 5).Draw(rt, "pageSize")
	}
	return sc
}

func sUser(v int) SUser {
	u := SUser{Stamp: SStamp{T: v * 3}}
	if v%2 == 1 {
		u.Name = fmt.Sprintf("user-%d", v)
	}
	if v%3 != 0 {
		u.Age = v
	}
	if v%4 == 1 {
		u.Tags = map[string]string{fmt.Sprintf("t%d", v): "x"}
	}
	return u
}

func sOrder(v int) SOrder {
	o := SOrder{Total: v * 7}
	if v%2 == 0 {
		o.Items = []string{fmt.Sprint(v), "item"}
	}
	return o
}

// buildMsg constructs the state-protocol message with the public helpers.
func buildMsg(m C18Msg) (any, error) {
	key := stateKeys[m.Key]
	switch m.Op {
	case "reset":
		return *state.Reset(""), nil
	case "snap-start":
		return *state.SnapshotStart("o"), nil
	case "snap-end":
		return *state.SnapshotEnd("o"), nil
	}
	var cm *state.ChangeMessage
	var err error
	switch m.Entity {
	case 0:
		switch m.Op {
		case "insert":
			cm, err = state.Insert(key, sUser(m.V))
		case "update":
			cm, err = state.Update(key, sUser(m.V))
		default:
			cm, err = state.Delete[SUser](key)
		}
	case 1:
		switch m.Op {
		case "insert":
			cm, err = state.Insert(key, sOrder(m.V))
		case "update":
			// the producer's idea of the old value is only a hint: here it is sometimes the new value itself (an
			// "update" that the producer believes to be a no-op), whatever the collection holds at that point
			old := sOrder(m.V + 1)
			if m.V%3 == 0 {
				old = sOrder(m.V)
			}
			cm, err = state.UpdateWithOldValue(key, sOrder(m.V), old)
		default:
			cm, err = state.DeleteWithOldValue(key, sOrder(m.V))
		}
	case 2:
		switch m.Op {
		case "insert":
			cm, err = state.Insert(key, SNamed{N: m.V})
		case "update":
			cm, err = state.Update(key, SNamed{N: m.V}, state.WithTxID("tx"))
		default:
			cm, err = state.Delete[SNamed](key)
		}
	case 4:
		switch m.Op {
		case "insert":
			cm, err = state.Insert(key, sUser(m.V), state.WithEntityType(nameAdmin))
		case "update":
			cm, err = state.Update(key, sUser(m.V), state.WithEntityType(nameAdmin))
		default:
			cm, err = state.Delete[SUser](key, state.WithEntityType(nameAdmin))
		}
	case 5:
		switch m.Op {
		case "insert":
			cm, err = state.Insert(key, sOrder(m.V), state.WithEntityType(nameShopOrder))
		case "update":
			cm, err = state.Update(key, sOrder(m.V), state.WithEntityType(nameShopOrder))
		default:
			cm, err = state.Delete[SOrder](key, state.WithEntityType(nameShopOrder))
		}
	default:
		switch m.Op {
		case "delete":
			cm, err = state.Delete[SGhost](key)
		default:
			cm, err = state.Insert(key, SGhost{X: m.V})
		}
	}
	if err != nil {
		return nil, err
	}
	return *cm, nil
}

func publishMsg(bus *eventbus.EventBus, msg any) {
	switch v := msg.(type) {
	case state.ChangeMessage:
		eventbus.Publish(bus, v)
	case state.ControlMessage:
		eventbus.Publish(bus, v)
	}
}

type c18Mat struct {
	m        *state.Materializer
	users    *state.TypedCollection[SUser]
	orders   *state.TypedCollection[SOrder]
	named    *state.TypedCollection[SNamed]
	tags     *state.TypedCollection[[]string]       // unnamed Go types as entities
	counts   *state.TypedCollection[map[string]int] // (their entity type names are "[]string" and "map[string]int")
	admins   *state.TypedCollection[SUser]  // explicit entity type names containing the key separator
	shop     *state.TypedCollection[SOrder] //
	resets   int
	snaps    []bool
	onErrors int
	atReset  []int // number of entities in all collections when the reset callback ran
}

// reattach registers every collection again on the same materializer - the idempotent "attach my collections"
// step at the start of a resumed session. The collections (and what they hold) are the same objects.
func (c *c18Mat) reattach() {
	state.RegisterCollection(c.m, c.users)
	state.RegisterCollection(c.m, c.orders)
	state.RegisterCollection(c.m, c.named)
	state.RegisterCollection(c.m, c.tags)
	state.RegisterCollection(c.m, c.counts)
	state.RegisterCollection(c.m, c.admins)
	state.RegisterCollection(c.m, c.shop)
}

func newC18Mat(strict bool) *c18Mat {
	c := &c18Mat{}
	opts := []state.MaterializerOption{
		state.WithOnReset(func() { c.resets++; c.atReset = append(c.atReset, len(c.snapshot())) }),
		state.WithOnSnapshot(func(start bool) { c.snaps = append(c.snaps, start) }),
		state.WithOnError(func(error) { c.onErrors++ }),
	}
	if strict {
		opts = append(opts, state.WithStrictSchema())
	}
	c.m = state.NewMaterializer(opts...)
	c.users = state.NewTypedCollection[SUser](state.NewMemoryStore[SUser]())
	c.orders = state.NewTypedCollection[SOrder](state.NewMemoryStore[SOrder]())
	c.named = state.NewTypedCollection[SNamed](state.NewMemoryStore[SNamed]())
	state.RegisterCollection(c.m, c.users)
	state.RegisterCollection(c.m, c.orders)
	c.tags = state.NewTypedCollection[[]string](state.NewMemoryStore[[]string]())
	c.counts = state.NewTypedCollection[map[string]int](state.NewMemoryStore[map[string]int]())
	state.RegisterCollection(c.m, c.named)
	state.RegisterCollection(c.m, c.tags)
	state.RegisterCollection(c.m, c.counts)
	c.admins = state.NewTypedCollectionWithType[SUser](state.NewMemoryStore[SUser](), nameAdmin)
	c.shop = state.NewTypedCollectionWithType[SOrder](state.NewMemoryStore[SOrder](), nameShopOrder)
	state.RegisterCollection(c.m, c.admins)
	state.RegisterCollection(c.m, c.shop)
	return c
}

// snapshot renders the whole materialized state as sorted "collection|compositeKey=json" lines.
func (c *c18Mat) snapshot() []string {
	var out []string
	for k, v := range c.users.All() {
		out = append(out, "user|"+k+"="+string(mustJSON(v)))
	}
	for k, v := range c.orders.All() {
		out = append(out, "order|"+k+"="+string(mustJSON(v)))
	}
	for k, v := range c.named.All() {
		out = append(out, "named|"+k+"="+string(mustJSON(v)))
	}
	for k, v := range c.admins.All() {
		out = append(out, "admin|"+k+"="+string(mustJSON(v)))
	}
	for k, v := range c.shop.All() {
		out = append(out, "shop|"+k+"="+string(mustJSON(v)))
	}
	for k, v := range c.tags.All() {
		out = append(out, "tags|"+k+"="+string(mustJSON(v)))
	}
	for k, v := range c.counts.All() {
		out = append(out, "counts|"+k+"="+string(mustJSON(v)))
	}
	sort.Strings(out)
	return out
}

// c18Fold is the reference: last writer wins, delete removes, reset clears everything.
type c18Fold struct {
	state  map[string]string
	resets int
	snaps  []bool
}

func (f *c18Fold) apply(m C18Msg) {
	coll := []string{"user", "order", "named", "", "admin", "shop"}
	types := []string{entName(SUser{}), entName(SOrder{}), entName(SNamed{}), "", nameAdmin, nameShopOrder}
	switch m.Op {
	case "reset":
		f.state = map[string]string{}
		f.resets++
		return
	case "snap-start":
		f.snaps = append(f.snaps, true)
		return
	case "snap-end":
		f.snaps = append(f.snaps, false)
		return
	}
	if m.Entity == 3 {
		return
	}
	k := coll[m.Entity] + "|" + compositeKey(types[m.Entity], stateKeys[m.Key])
	switch m.Op {
	case "delete":
		delete(f.state, k)
	default:
		var v any
		switch m.Entity {
		case 0, 4:
			v = sUser(m.V)
		case 1, 5:
			v = sOrder(m.V)
		default:
			v = SNamed{N: m.V}
		}
		f.state[k] = string(mustJSON(v))
	}
}

func (f *c18Fold) lines() []string {
	var out []string
	for k, v := range f.state {
		out = append(out, k+"="+v)
	}
	sort.Strings(out)
	return out
}

func (sc *C18Scenario) Execute(t *testing.T) *core.Outcome {
	out := &core.Outcome{}
	var rec core.Recorder
	body := func() {
		env := newStoreEnv()
		defer env.Close()
		inner, err := env.openStore(sc.Store, "main")
		if err != nil {
			out.HarnessErr = err.Error()
			return
		}
		fc := newFcore(inner, FaultPlan{}, &rec)
		opts := []eventbus.Option{eventbus.WithStore(fc.wrap(sc.Paged > 0))}
		if sc.Paged > 0 {
			opts = append(opts, eventbus.WithReplayBatchSize(sc.Paged))
		}
		bus := eventbus.New(opts...)
		ctx := context.Background()
		for _, m := range sc.Msgs {
			msg, err := buildMsg(m)
			if err != nil {
				out.HarnessErr = "build: " + err.Error()
				return
			}
			publishMsg(bus, msg)
		}
		stored, _, err := inner.Read(ctx, eventbus.OffsetOldest, 0)
		if err != nil || len(stored) != len(sc.Msgs) {
			out.HarnessErr = fmt.Sprintf("log has %d events for %d messages (%v)", len(stored), len(sc.Msgs), err)
			return
		}
		// reference fold; in strict mode the first message of an unregistered entity type stops everything
		fold := &c18Fold{state: map[string]string{}}
		applied := 0
		for _, m := range sc.Msgs {
			if sc.Strict && m.Entity == 3 && m.Op != "reset" && m.Op != "snap-start" && m.Op != "snap-end" {
				break
			}
			fold.apply(m)
			applied++
		}
		wantLast := eventbus.OffsetOldest
		if applied > 0 {
			wantLast = stored[applied-1].Offset
		}
		// the materializer under test: interrupted sessions, each resumed from LastOffset
		pos := map[eventbus.Offset]int{eventbus.OffsetOldest: 0}
		for i, e := range stored {
			pos[e.Offset] = i + 1
		}
		mat := newC18Mat(sc.Strict)
		for si, failAfter := range sc.Sessions {
			if sc.Reattach && si > 0 {
				mat.reattach()
			}
			before := mat.m.LastOffset()
			if sc.Paged > 0 {
				fc.plan.FailRead = []int{fc.n["read"] + failAfter/sc.Paged}
			} else {
				fc.plan.FailStreamRow = []int{fc.rows + failAfter}
			}
			err := mat.m.Replay(ctx, bus, before)
			rec.Add("session", si, failAfter, fmt.Sprint(err != nil))
			if err != nil {
				out.Fault("replay-session-interrupted")
			}
			if pos[mat.m.LastOffset()] < pos[before] { // compared by log position, not as strings
				out.V("last-offset-regressed", "LastOffset went from %q back to %q in session %d", before, mat.m.LastOffset(), si)
			}
		}
		fc.plan.FailRead, fc.plan.FailStreamRow = nil, nil
		if sc.Reattach {
			mat.reattach()
		}
		finalErr := mat.m.Replay(ctx, bus, mat.m.LastOffset())
		strictStop := sc.Strict && applied < len(sc.Msgs)
		if strictStop && finalErr == nil {
			out.V("strict-unknown-type-accepted", "strict materializer replayed past a message of an unregistered entity type without an error")
		}
		if !strictStop && finalErr != nil {
			out.V("replay-error", "fault-free Materializer.Replay returned %v", finalErr)
		}
		// a twin applying the log in one session
		twin := newC18Mat(sc.Strict)
		twin.m.Replay(ctx, bus, eventbus.OffsetOldest)

		got, want, single := mat.snapshot(), fold.lines(), twin.snapshot()
		if !reflect.DeepEqual(got, want) {
			out.V("state-is-not-the-fold", "materialized state after %d sessions:\n   %v\nexpected (fold of the first %d messages):\n   %v", len(sc.Sessions)+1, got, applied, want)
		}
		if !reflect.DeepEqual(got, single) {
			out.V("sessions-differ-from-single-pass", "state after interrupted+resumed sessions:\n   %v\nstate after a single session:\n   %v", got, single)
		}
		if mat.m.LastOffset() != wantLast {
			out.V("last-offset", "LastOffset=%q, offset of the last successfully applied event is %q (applied %d of %d)", mat.m.LastOffset(), wantLast, applied, len(sc.Msgs))
		}
		if twin.m.LastOffset() != wantLast {
			out.V("last-offset", "single-session LastOffset=%q, expected %q", twin.m.LastOffset(), wantLast)
		}
		for _, m := range []*c18Mat{mat, twin} {
			for i, n := range m.atReset {
				if n != 0 {
					out.V("reset-callback-before-clear", "the OnReset callback (documented as called after all collections have been cleared) found %d entities at its call no. %d", n, i)
				}
			}
		}
		if twin.resets != fold.resets || !reflect.DeepEqual(twin.snaps, fold.snaps) {
			out.V("control-callbacks", "single session: onReset called %d times (expected %d), onSnapshot calls %v (expected %v)", twin.resets, fold.resets, twin.snaps, fold.snaps)
		}
		// Get agrees with All, per key
		types := []string{entName(SUser{}), entName(SOrder{}), entName(SNamed{})}
		for _, key := range stateKeys {
			u, ok := mat.users.Get(key)
			_, inFold := fold.state["user|"+compositeKey(types[0], key)]
			if ok != inFold || (ok && string(mustJSON(u)) != fold.state["user|"+compositeKey(types[0], key)]) {
				out.V("get-disagrees", "users.Get(%q) = %v,%v but the fold has present=%v", key, u, ok, inFold)
			}
			o, ok := mat.orders.Get(key)
			_, inFold = fold.state["order|"+compositeKey(types[1], key)]
			if ok != inFold || (ok && string(mustJSON(o)) != fold.state["order|"+compositeKey(types[1], key)]) {
				out.V("get-disagrees", "orders.Get(%q) = %v,%v but the fold has present=%v", key, o, ok, inFold)
			}
		}
		var _ = json.Marshal
	}
	rep, herr := core.Sim(t, &sc.Base, nil, body)
	out.Rep = rep
	if out.HarnessErr == "" {
		out.HarnessErr = herr
	}
	if rep == nil {
		return out
	}
	out.LogHash = rec.Hash()
	out.Nontrivial = len(sc.Msgs) > 1
	for _, p := range rep.Panics {
		out.V("escaped-panic", "%s: %s\n%s", p.Task, p.Value, p.Stack)
	}
	if rep.BudgetExceeded || rep.Deadlock {
		out.HarnessErr = "run did not finish"
	}
	out.Summary = fmt.Sprintf("store %s, %d messages, strict=%v, %d interrupted sessions, paged=%d", sc.Store, len(sc.Msgs), sc.Strict, len(sc.Sessions), sc.Paged)
	return out
}

var propC18 = &core.Property{ID: "C18", Gen: genC18, New: func() core.Scenario { return &C18Scenario{} }}

func TestC18(t *testing.T) { core.RunProperty(t, propC18) }
