package props

import (
	"context"
	"fmt"
	"os"
	"testing"

	eventbus "github.com/jilio/ebu"
	"pgregory.net/rapid"

	"ebusim/core"
	"simshim/simrt"
)

// C07 — Sequential handlers never overlap and process events in publish order.

type C07Reg struct {
	Fn      int     `json:"fn"`
	Opts    SubOpts `json:"opts"`
	PanicOn []int   `json:"panic_on,omitempty"` // invocation numbers on which the handler panics (after its exit mark)
}

type C07Scenario struct {
	core.Base
	Type   int      `json:"type"`
	Regs   []C07Reg `json:"regs"`
	Pubs   [][]int  `json:"pubs"` // per publisher task: event ids (publisher*1000 + sequence number)
	Yields int      `json:"yields"`
	ViaAny bool     `json:"via_any,omitempty"` // publish through an interface-typed value (reflection dispatch path)
	// Neighbours subscribed before the handlers under test: Once handlers (retired by the first
	// publish) and a handler that unsubscribes itself on its first invocation. Their removal
	// reshuffles the registry while other publishes are being dispatched.
	OnceBefore int  `json:"once_before,omitempty"`
	SelfUnsub  bool `json:"self_unsub,omitempty"`
	// CancelEvery: every n-th event (n>0) is published with a cancellable context that a synchronous
	// neighbour, subscribed after the handlers under test, cancels during that publish. Deliveries of
	// such an event are indeterminate; every other event must still arrive exactly once, in order.
	CancelEvery int `json:"cancel_every,omitempty"`
	// SlowFirst: the first invocation of every handler under test takes many more scheduler steps, so that
	// publishers run ahead and a queue of deliveries (live and cancelled ones) builds up behind it.
	SlowFirst bool `json:"slow_first,omitempty"`
	// ExtCancel: the contexts of the "cancelled" events are cancelled by a task of their own, started just
	// before the publish, instead of by the neighbour handler: the cancellation can land at any decision
	// point - before dispatch, between the publisher's check and the start of an async delivery, while a
	// delivery waits for its turn - and not only during a handler.
	ExtCancel bool `json:"ext_cancel,omitempty"`
	// ViaReplay: the bus is persistent, Stored events are published before anybody subscribes, and the
	// handlers under test are resumable subscriptions (SubscribeWithReplay with their options) made by a
	// task of their own while the publishers run. Invocations of a Sequential one must not overlap, whether
	// they come from the replay or from live publishes. (Which events it sees is C12's business, not checked here.)
	ViaReplay bool `json:"via_replay,omitempty"`
	Stored    int  `json:"stored,omitempty"`
	// Deep: one publisher, 130-400 events, and a first invocation that lasts until (nearly) all of them are
	// queued behind it: queues far longer than any fixed-size ring, table or batch an implementation might use
	Deep bool `json:"deep,omitempty"`
	// ReuseCtx: the context a context-aware handler was given (for a publish that is never cancelled) is kept, and
	// later publishes with an odd id - by any publisher task - are made with that context instead of a fresh one:
	// the follow-up pattern "publish the next step with the context I was called with". It is a live context
	// like any other; whatever the bus stored in it for that one invocation must not leak into others.
	ReuseCtx bool `json:"reuse_ctx,omitempty"`
}

func genC07(rt *rapid.T) core.Scenario {
	sc := &C07Scenario{Type: rapid.IntRange(0, len(allTypes)-1).Draw(rt, "type")}
	n := rapid.IntRange(1, 3).Draw(rt, "nRegs")
	for i := 0; i < n; i++ {
		fn := i
		if i%2 == 1 {
			fn = numSites + i
		}
		r := C07Reg{Fn: fn, Opts: SubOpts{
			Seq:   i == 0 || rapid.IntRange(0, 2).Draw(rt, "seq") > 0,
			Async: rapid.Bool().Draw(rt, "async"),
			Rev:   rapid.Bool().Draw(rt, "optionsReversed"),
		}}
		if rapid.IntRange(0, 3).Draw(rt, "panics") == 3 {
			r.PanicOn = rapid.SliceOfNDistinct(rapid.IntRange(0, 5), 1, 2, rapid.ID[int]).Draw(rt, "panicOn")
		}
		sc.Regs = append(sc.Regs, r)
	}
	np := rapid.IntRange(1, 4).Draw(rt, "nPublishers")
	for p := 0; p < np; p++ {
		k := rapid.IntRange(1, 8).Draw(rt, "nEvents")
		var l []int
		for j := 0; j < k; j++ {
			l = append(l, (p+1)*1000+j)
		}
		sc.Pubs = append(sc.Pubs, l)
	}
	sc.Yields = rapid.IntRange(1, 5).Draw(rt, "yields")
	sc.ViaAny = rapid.IntRange(0, 4).Draw(rt, "viaAny") == 4
	sc.ReuseCtx = rapid.IntRange(0, 2).Draw(rt, "reuseCtx") == 2
	if rapid.IntRange(0, 2).Draw(rt, "neighbours") == 2 {
		sc.OnceBefore = rapid.IntRange(0, 2).Draw(rt, "onceBefore")
		sc.SelfUnsub = rapid.Bool().Draw(rt, "selfUnsub")
	}
	if rapid.IntRange(0, 2).Draw(rt, "cancels") == 2 {
		sc.CancelEvery = rapid.IntRange(1, 3).Draw(rt, "cancelEvery")
	}
	sc.SlowFirst = rapid.IntRange(0, 2).Draw(rt, "slowFirst") == 2
	sc.ExtCancel = sc.CancelEvery > 0 && rapid.Bool().Draw(rt, "extCancel")
	if rapid.IntRange(0, 19).Draw(rt, "deep") == 19 {
		sc.Deep, sc.SlowFirst, sc.CancelEvery, sc.ExtCancel, sc.OnceBefore, sc.SelfUnsub = true, true, 0, false, 0, false
		sc.Regs = sc.Regs[:1]
		sc.Regs[0].Opts.Seq, sc.Regs[0].Opts.Async, sc.Regs[0].PanicOn = true, true, nil
		k := rapid.SampledFrom([]int{129, 130, 200, 257, 400}).Draw(rt, "deepEvents")
		var l []int
		for j := 0; j < k; j++ {
			l = append(l, 1000+j)
		}
		sc.Pubs = [][]int{l}
	} else if rapid.IntRange(0, 5).Draw(rt, "viaReplay") == 5 {
		sc.ViaReplay, sc.ViaAny, sc.CancelEvery, sc.ExtCancel = true, false, 0, false
		sc.Stored = rapid.IntRange(1, 5).Draw(rt, "stored")
		for i := range sc.Regs {
			sc.Regs[i].PanicOn = nil
		}
	}
	sc.Tape = core.DrawTape(rt, 600)
	return sc
}

func (sc *C07Scenario) Execute(t *testing.T) *core.Outcome {
	out := &core.Outcome{}
	var w *World
	ops := allTypes[sc.Type]
	regOfFn := map[int]int{}
	for i, r := range sc.Regs {
		regOfFn[r.Fn] = i
	}
	inside := map[int]int{}
	seen := map[int][]int{}
	overlaps := 0
	contended := 0
	body := func() {
		if sc.ViaReplay {
			w = NewWorld(eventbus.WithStore(eventbus.NewMemoryStore()))
		} else {
			w = NewWorld()
		}
		calls := map[int]int{}
		cancelFn := map[int]context.CancelFunc{}
		var escaped context.Context
		w.OnInvoke = func(ti, fn, uid int, ctx context.Context, id int) {
			if uid >= 100 { // neighbours
				w.Rec.Add("neighbour", uid, id, "")
				simrt.Yield(siteHandler)
				if uid == 200 {
					ops.Unsub(w, fn)
				}
				if uid == 300 {
					if c := cancelFn[id]; c != nil {
						c()
					}
				}
				return
			}
			ri := regOfFn[fn]
			w.Rec.Add("enter", ri, id, "")
			if sc.ReuseCtx && ctx != nil && escaped == nil && !sc.cancelled(id) {
				escaped = ctx
			}
			inside[ri]++
			if inside[ri] > 1 {
				if sc.Regs[ri].Opts.Seq {
					overlaps++
					out.V("sequential-overlap", "Sequential registration %d (%+v) was entered for event %d while another invocation of it was still running", ri, sc.Regs[ri].Opts, id)
				}
			}
			seen[ri] = append(seen[ri], id)
			ny := sc.Yields
			if sc.SlowFirst && calls[ri] == 0 {
				ny = 40 * sc.Yields
				if sc.Deep {
					ny = 25 * len(sc.Pubs[0])
				}
			}
			for i := 0; i < ny; i++ {
				simrt.Yield(siteHandler)
			}
			inside[ri]--
			w.Rec.Add("exit", ri, id, "")
			k := calls[ri]
			calls[ri]++
			for _, p := range sc.Regs[ri].PanicOn {
				if p == k {
					out.Fault("handler-panic")
					panic(fmt.Sprintf("sequential handler %d panics on invocation %d", ri, k))
				}
			}
		}
		for i := 0; i < sc.OnceBefore; i++ {
			if err := w.SubscribeUID(sc.Type, numSites-1-i, 100+i, SubOpts{Once: true}); err != nil {
				out.HarnessErr = err.Error()
				return
			}
		}
		if sc.SelfUnsub {
			if err := w.SubscribeUID(sc.Type, numSites-4, 200, SubOpts{}); err != nil {
				out.HarnessErr = err.Error()
				return
			}
		}
		for i := 0; i < sc.Stored; i++ {
			ops.Pub(w, context.Background(), 9000+i)
		}
		var subscriber *simrt.Task
		if sc.ViaReplay {
			subscriber = simrt.GoNamed("subscriber", func() {
				for ri, r := range sc.Regs {
					fn := r.Fn
					var so []eventbus.SubscribeOption
					if r.Opts.Async {
						so = append(so, eventbus.Async())
					}
					if r.Opts.Seq {
						so = append(so, eventbus.Sequential())
					}
					if err := ops.SubReplay(w, context.Background(), fmt.Sprintf("c07-%d", ri), func(id int) { w.OnInvoke(sc.Type, fn, 0, nil, id) }, so...); err != nil {
						out.HarnessErr = err.Error()
						return
					}
				}
			})
		} else {
			for _, r := range sc.Regs {
				if err := w.Subscribe(sc.Type, r.Fn, r.Opts); err != nil {
					out.HarnessErr = err.Error()
					return
				}
			}
		}
		if sc.CancelEvery > 0 && !sc.ExtCancel {
			if err := w.SubscribeUID(sc.Type, numSites-5, 300, SubOpts{}); err != nil {
				out.HarnessErr = err.Error()
				return
			}
		}
		var tasks []*simrt.Task
		for pi, l := range sc.Pubs {
			l := l
			tasks = append(tasks, simrt.GoNamed(fmt.Sprintf("pub%d", pi), func() {
				for _, id := range l {
					w.Rec.Add("pub-call", id, 0, "")
					ctx := context.Background()
					if sc.ReuseCtx && escaped != nil && id%2 == 1 && !sc.cancelled(id) {
						ctx = escaped
					}
					if sc.cancelled(id) {
						c, cancel := context.WithCancel(ctx)
						ctx, cancelFn[id] = c, cancel
						if sc.ExtCancel {
							delay := (id * 13) % 41 // 0..40 steps: before dispatch, during it, or long after the delivery was queued
							simrt.GoNamed(fmt.Sprintf("cancel%d", id), func() {
								for i := 0; i < delay; i++ {
									simrt.Yield(siteHandler)
								}
								cancel()
							})
						}
					}
					if sc.ViaAny {
						ops.PubAny(w, ctx, id)
					} else {
						ops.Pub(w, ctx, id)
					}
					w.Rec.Add("pub-ret", id, 0, "")
				}
			}))
		}
		simrt.Join(tasks...)
		simrt.Join(subscriber)
		w.Bus.Wait()
	}
	rep, herr := core.Sim(t, &sc.Base, nil, body)
	out.Rep = rep
	if out.HarnessErr == "" {
		out.HarnessErr = herr
	}
	if rep == nil || out.HarnessErr != "" {
		return out
	}
	out.LogHash = w.Rec.Hash()
	out.Nontrivial = rep.Choices > 0
	if os.Getenv("VERIF_DEBUG") != "" {
		fmt.Printf("C07 debug: seen=%v steps=%d deadlock=%v\n", seen, rep.Steps, rep.Deadlock)
	}
	_ = contended
	if rep.BudgetExceeded {
		out.HarnessErr = "step budget exceeded"
		return out
	}
	for _, p := range rep.Panics {
		out.V("escaped-panic", "%s: %s", p.Task, p.Value)
	}
	if rep.Deadlock {
		out.V("deadlock", "%s", rep.DeadlockInfo)
		return out
	}
	var all []int
	for _, l := range sc.Pubs {
		for _, id := range l {
			if !sc.cancelled(id) {
				all = append(all, id)
			}
		}
	}
	for ri, r := range sc.Regs {
		if sc.ViaReplay {
			break // overlap is checked while the run proceeds; the delivery sets of resumable subscriptions are C12's
		}
		// events whose context was cancelled mid-publish may or may not have been delivered: compare the others
		var kept []int
		for _, id := range seen[ri] {
			if !sc.cancelled(id) {
				kept = append(kept, id)
			}
		}
		seen[ri] = kept
		if !sameMultiset(all, seen[ri]) {
			out.V("sequential-delivery", "registration %d (%+v) received %v, expected each of %v exactly once", ri, r.Opts, seen[ri], all)
			continue
		}
		// per publisher: events published one after another by the same task are processed in that order
		last := map[int]int{}
		for _, id := range seen[ri] {
			p := id / 1000
			if prev, ok := last[p]; ok && id < prev {
				switch {
				case !r.Opts.Async:
					out.V("sync-order", "synchronous registration %d processed event %d after %d of the same publisher", ri, id, prev)
				case r.Opts.Seq:
					out.VS("async-sequential-order", "async-sequential-order", "Async+Sequential registration %d processed event %d after event %d although the same task published %d first (order seen: %v)", ri, id, prev, id, seen[ri])
				}
				break
			}
			last[p] = id
		}
	}
	out.Summary = fmt.Sprintf("%d regs, %d publishers, overlaps=%d", len(sc.Regs), len(sc.Pubs), overlaps)
	return out
}

func (sc *C07Scenario) cancelled(id int) bool {
	return sc.CancelEvery > 0 && (id%1000)%sc.CancelEvery == sc.CancelEvery-1
}

var propC07 = &core.Property{ID: "C07", Gen: genC07, New: func() core.Scenario { return &C07Scenario{} }}

func TestC07(t *testing.T) { core.RunProperty(t, propC07) }
