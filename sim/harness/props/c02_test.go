package props

import (
	"context"
	"fmt"
	"testing"

	"pgregory.net/rapid"

	"ebusim/core"
	"simshim/simrt"
)

// C02 — Subscribe, Unsubscribe, Clear and Publish stay consistent under every interleaving.

type C02Op struct {
	Kind string  `json:"kind"` // sub, unsub, clear, pub
	Type int     `json:"type"`
	Fn   int     `json:"fn,omitempty"`
	Opts SubOpts `json:"opts,omitempty"`
	ID   int     `json:"id,omitempty"`
}

type C02Scenario struct {
	core.Base
	ShareOpts bool `json:"share_opts,omitempty"` // option values created once and reused by all subscriptions (see World.ShareOptions)
	Init   []C02Op   `json:"init"`  // subscriptions made before the tasks start
	Tasks  [][]C02Op `json:"tasks"` // concurrent tasks
	Yields int       `json:"yields"`
	// Twins: every registration is a closure of one of two function literals (same code pointer, own captured
	// uid - handlers built by a factory), so Unsubscribe(f) has several candidates and must remove exactly one,
	// and a fired Once registration must be retired itself, not a sibling. Sub ops carry their uid in ID.
	Twins bool `json:"twins,omitempty"`
	// ViaAny: publishes whose id is divisible by 3 go through an interface-typed value (Publish[any]): the same
	// event, dispatched on its dynamic type - registry bookkeeping keyed by the static type parameter misses it
	ViaAny bool `json:"via_any,omitempty"`
}

type c02OpRec struct {
	Op        C02Op
	Call, Ret int64
	Err       bool
}

func genC02Twins(rt *rapid.T) core.Scenario {
	sc := &C02Scenario{Twins: true}
	ty := rapid.IntRange(0, len(allTypes)-1).Draw(rt, "type0")
	uid := 0
	newSub := func(label string) C02Op {
		uid++
		fn := rapid.SampledFrom([]int{0, 0, 0, numSites}).Draw(rt, label+"Fn")
		return C02Op{Kind: "sub", Type: ty, Fn: fn, ID: uid, Opts: SubOpts{
			Once:  rapid.IntRange(0, 2).Draw(rt, label+"Once") == 2,
			Async: rapid.IntRange(0, 4).Draw(rt, label+"Async") == 4,
		}}
	}
	nInit := rapid.IntRange(0, 4).Draw(rt, "nInit")
	for i := 0; i < nInit; i++ {
		sc.Init = append(sc.Init, newSub("init"))
	}
	nTasks := rapid.IntRange(1, 3).Draw(rt, "nTasks")
	id := 0
	for ti := 0; ti < nTasks; ti++ {
		n := rapid.IntRange(1, 6).Draw(rt, "nOps")
		var ops []C02Op
		for j := 0; j < n; j++ {
			switch rapid.SampledFrom([]string{"sub", "sub", "unsub", "unsub", "pub", "pub", "pub"}).Draw(rt, "kind") {
			case "sub":
				ops = append(ops, newSub("op"))
			case "unsub":
				ops = append(ops, C02Op{Kind: "unsub", Type: ty, Fn: rapid.SampledFrom([]int{0, 0, 0, numSites}).Draw(rt, "uFn")})
			case "pub":
				id++
				ops = append(ops, C02Op{Kind: "pub", Type: ty, ID: id})
			}
		}
		sc.Tasks = append(sc.Tasks, ops)
	}
	sc.Yields = rapid.IntRange(0, 2).Draw(rt, "yields")
	sc.ShareOpts = rapid.IntRange(0, 2).Draw(rt, "shareOpts") == 2
	sc.ViaAny = rapid.IntRange(0, 2).Draw(rt, "viaAny") == 2
	sc.Tape = core.DrawTape(rt, 400)
	return sc
}

func genC02(rt *rapid.T) core.Scenario {
	if rapid.IntRange(0, 3).Draw(rt, "twins") == 3 {
		return genC02Twins(rt)
	}
	sc := &C02Scenario{}
	nTypes := rapid.IntRange(1, 2).Draw(rt, "nTypes")
	types := []int{rapid.IntRange(0, len(allTypes)-1).Draw(rt, "type0")}
	if nTypes == 2 {
		types = append(types, (types[0]+1+rapid.IntRange(0, len(allTypes)-2).Draw(rt, "type1"))%len(allTypes))
	}
	nextFn := map[int]int{}
	newSub := func(label string) (C02Op, bool) {
		ti := types[rapid.IntRange(0, len(types)-1).Draw(rt, label+"Type")]
		if nextFn[ti] >= 2*numSites {
			return C02Op{}, false
		}
		// alternate plain / context-aware functions
		n := nextFn[ti]
		nextFn[ti]++
		fn := n / 2
		if n%2 == 1 {
			fn += numSites
		}
		o := SubOpts{
			Once:   rapid.IntRange(0, 3).Draw(rt, label+"Once") == 3,
			Async:  rapid.IntRange(0, 3).Draw(rt, label+"Async") == 3,
			Seq:    rapid.IntRange(0, 5).Draw(rt, label+"Seq") == 5,
			Filter: rapid.SampledFrom([]int{0, 0, 0, 1, 2}).Draw(rt, label+"Filter"),
		}
		return C02Op{Kind: "sub", Type: ti, Fn: fn, Opts: o}, true
	}
	nInit := rapid.IntRange(0, 3).Draw(rt, "nInit")
	if rapid.IntRange(0, 7).Draw(rt, "crowd") == 7 {
		// a crowd: 9-16 registrations made one after the other before the tasks start, then up to 8 of them
		// unsubscribed again, oldest first or in any order - handler lists that grow and shrink past their
		// small initial capacities
		nInit = rapid.IntRange(9, 16).Draw(rt, "crowdSize")
	}
	for i := 0; i < nInit; i++ {
		if op, ok := newSub("init"); ok {
			if nInit >= 9 {
				op.Type = types[0]
				op.Fn = i / 2
				if i%2 == 1 {
					op.Fn += numSites
				}
				nextFn[types[0]] = i + 1
			}
			sc.Init = append(sc.Init, op)
		}
	}
	if nInit >= 9 {
		nu := rapid.IntRange(3, 8).Draw(rt, "crowdUnsubs")
		for i := 0; i < nu; i++ {
			n := i
			if rapid.Bool().Draw(rt, "anyOrder") {
				n = rapid.IntRange(0, nInit-1).Draw(rt, "crowdUnsubWhich")
			}
			fn := n / 2
			if n%2 == 1 {
				fn += numSites
			}
			sc.Init = append(sc.Init, C02Op{Kind: "unsub", Type: types[0], Fn: fn})
		}
	}
	nTasks := rapid.IntRange(2, 4).Draw(rt, "nTasks")
	id := 0
	for ti := 0; ti < nTasks; ti++ {
		n := rapid.IntRange(1, 6).Draw(rt, "nOps")
		var ops []C02Op
		for j := 0; j < n; j++ {
			switch rapid.SampledFrom([]string{"sub", "sub", "unsub", "unsub", "clear", "clearall", "pub", "pub", "pub", "pub", "pub"}).Draw(rt, "kind") {
			case "clearall":
				ops = append(ops, C02Op{Kind: "clearall", Type: types[0]})
			case "sub":
				if op, ok := newSub("op"); ok {
					ops = append(ops, op)
				}
			case "unsub":
				t := types[rapid.IntRange(0, len(types)-1).Draw(rt, "uType")]
				n := rapid.IntRange(0, 5).Draw(rt, "uFn")
				fn := n / 2
				if n%2 == 1 {
					fn += numSites
				}
				ops = append(ops, C02Op{Kind: "unsub", Type: t, Fn: fn})
			case "clear":
				ops = append(ops, C02Op{Kind: "clear", Type: types[rapid.IntRange(0, len(types)-1).Draw(rt, "cType")]})
			case "pub":
				id++
				ops = append(ops, C02Op{Kind: "pub", Type: types[rapid.IntRange(0, len(types)-1).Draw(rt, "pType")],
					ID: id*2 + rapid.IntRange(0, 1).Draw(rt, "parity")})
			}
		}
		sc.Tasks = append(sc.Tasks, ops)
	}
	sc.Yields = rapid.IntRange(0, 2).Draw(rt, "yields")
	sc.ShareOpts = rapid.IntRange(0, 2).Draw(rt, "shareOpts") == 2
	sc.ViaAny = rapid.IntRange(0, 2).Draw(rt, "viaAny") == 2
	sc.Tape = core.DrawTape(rt, 400)
	return sc
}

type c02Inv struct {
	Reg, Ev int
	Stamp   int64
}

func (sc *C02Scenario) Execute(t *testing.T) *core.Outcome {
	out := &core.Outcome{}
	var w *World
	var recs []*c02OpRec
	var invs []c02Inv
	var probeInvs []c02Inv
	counts := map[int]int{}
	probing := false

	exec := func(op C02Op) *c02OpRec {
		r := &c02OpRec{Op: op}
		recs = append(recs, r)
		r.Call = w.Rec.Add("call-"+op.Kind, regKey(op.Type, op.Fn), op.ID, "")
		switch op.Kind {
		case "sub":
			if sc.Twins {
				r.Err = w.SubscribeUID(op.Type, op.Fn, op.ID, op.Opts) != nil
			} else {
				r.Err = w.Subscribe(op.Type, op.Fn, op.Opts) != nil
			}
		case "unsub":
			r.Err = allTypes[op.Type].Unsub(w, op.Fn) != nil
		case "clear":
			allTypes[op.Type].Clear(w)
		case "clearall":
			clearAll(w)
		case "pub":
			if sc.ViaAny && op.ID%3 == 0 {
				allTypes[op.Type].PubAny(w, context.Background(), op.ID)
			} else {
				allTypes[op.Type].Pub(w, context.Background(), op.ID)
			}
		}
		x := ""
		if r.Err {
			x = "err"
		}
		r.Ret = w.Rec.Add("ret-"+op.Kind, regKey(op.Type, op.Fn), op.ID, x)
		return r
	}

	body := func() {
		w = NewWorld()
		w.ShareOptions = sc.ShareOpts
		w.OnInvoke = func(ti, fn, uid int, ctx context.Context, id int) {
			k := regKey(ti, fn)
			if sc.Twins {
				k = uid
			}
			st := w.Rec.Add("enter", k, id, "")
			if probing {
				probeInvs = append(probeInvs, c02Inv{k, id, st})
			} else {
				invs = append(invs, c02Inv{k, id, st})
			}
			for i := 0; i < sc.Yields; i++ {
				simrt.Yield(siteHandler)
			}
			w.Rec.Add("exit", k, id, "")
		}
		for _, op := range sc.Init {
			exec(op)
		}
		var tasks []*simrt.Task
		for i, ops := range sc.Tasks {
			ops := ops
			tasks = append(tasks, simrt.GoNamed(fmt.Sprintf("client%d", i), func() {
				for _, op := range ops {
					exec(op)
				}
			}))
		}
		simrt.Join(tasks...)
		w.Bus.Wait()
		w.Rec.Add("quiescent", 0, 0, "")
		var typesUsed []int
		seen := map[int]bool{}
		for _, r := range recs {
			if !seen[r.Op.Type] {
				seen[r.Op.Type] = true
				typesUsed = append(typesUsed, r.Op.Type)
				counts[r.Op.Type] = allTypes[r.Op.Type].Count(w)
			}
		}
		// probe publishes: one even, one odd id per type, so every filter kind used here accepts one of them
		probing = true
		for _, ti := range typesUsed {
			allTypes[ti].Pub(w, context.Background(), 1000000)
			w.Bus.Wait()
			allTypes[ti].Pub(w, context.Background(), 1000001)
			w.Bus.Wait()
		}
	}
	rep, herr := core.Sim(t, &sc.Base, nil, body)
	out.Rep = rep
	out.HarnessErr = herr
	if rep == nil {
		return out
	}
	if w != nil {
		out.LogHash = w.Rec.Hash()
	}
	out.Nontrivial = rep.Choices > 0
	if rep.Deadlock {
		out.V("deadlock", "%s", rep.DeadlockInfo)
		return out
	}
	if rep.BudgetExceeded {
		out.HarnessErr = "step budget exceeded"
		return out
	}
	for _, p := range rep.Panics {
		out.V("escaped-panic", "%s: %s\n%s", p.Task, p.Value, p.Stack)
	}
	if len(out.Violations) > 0 {
		return out
	}

	if sc.Twins {
		sc.twinsOracle(out, recs, invs, probeInvs, counts)
		out.Summary = fmt.Sprintf("twins: %d init subs, %d tasks, %d ops, %d invocations", len(sc.Init), len(sc.Tasks), len(recs), len(invs))
		return out
	}
	// ---------------- oracle (the property, literally)
	var subs, pubs, removals []*c02OpRec
	for _, r := range recs {
		switch r.Op.Kind {
		case "sub":
			if !r.Err {
				subs = append(subs, r)
			}
		case "pub":
			pubs = append(pubs, r)
		case "unsub":
			if !r.Err {
				removals = append(removals, r)
			}
		case "clear", "clearall":
			removals = append(removals, r)
		}
	}
	nInv := map[[2]int]int{} // (reg, ev) -> count
	perReg := map[int][]int{}
	for _, iv := range invs {
		nInv[[2]int{iv.Reg, iv.Ev}]++
		perReg[iv.Reg] = append(perReg[iv.Reg], iv.Ev)
	}
	subOf := map[int]*c02OpRec{}
	for _, s := range subs {
		subOf[regKey(s.Op.Type, s.Op.Fn)] = s
	}
	for _, iv := range invs {
		if subOf[iv.Reg] == nil {
			out.V("phantom-handler", "handler %s invoked for event %d but it was never successfully subscribed", regName(iv.Reg), iv.Ev)
		}
	}
	alive, uncertain := map[int]bool{}, map[int]bool{}
	for _, s := range subs {
		k := regKey(s.Op.Type, s.Op.Fn)
		var cand, definite []*c02OpRec // removals that may / must have removed this registration
		for _, x := range removals {
			if x.Op.Type != s.Op.Type && x.Op.Kind != "clearall" {
				continue // (ClearAll removes the registrations of every type)
			}
			if x.Op.Kind == "unsub" {
				if x.Op.Fn == s.Op.Fn {
					cand = append(cand, x)
					definite = append(definite, x)
				}
				continue
			}
			if x.Ret > s.Call { // a Clear that finished before Subscribe was called cannot touch it
				cand = append(cand, x)
				if x.Call > s.Ret {
					definite = append(definite, x)
				}
			}
		}
		got := perReg[k]
		if s.Op.Opts.Once && len(got) > 1 {
			out.V("once-fired-twice", "once handler %s invoked %d times: %v", regName(k), len(got), got)
		}
		mustAny := false
		for _, p := range pubs {
			if p.Op.Type != s.Op.Type {
				continue
			}
			c := nInv[[2]int{k, p.Op.ID}]
			if c > 1 {
				out.V("delivered-twice", "handler %s received event %d %d times", regName(k), p.Op.ID, c)
			}
			accept := filterAccepts(s.Op.Opts.Filter, p.Op.ID)
			mustNot := !accept || s.Call > p.Ret
			for _, x := range definite {
				if x.Ret < p.Call {
					mustNot = true
				}
			}
			must := accept && s.Ret < p.Call
			for _, x := range cand {
				if x.Call < p.Ret {
					must = false
				}
			}
			if mustNot && c > 0 {
				out.V("delivered-after-removal", "handler %s received event %d although it must not (filter accepts=%v, subscribe called #%d, publish #%d..#%d, removals before publish considered)", regName(k), p.Op.ID, accept, s.Call, p.Call, p.Ret)
			}
			if must {
				if s.Op.Opts.Once {
					mustAny = true
				} else if c != 1 {
					out.V("missed-delivery", "handler %s (subscribed #%d..#%d, no removal started before the publish returned) received event %d (published #%d..#%d) %d times, expected exactly once", regName(k), s.Call, s.Ret, p.Op.ID, p.Call, p.Ret, c)
				}
			}
		}
		if s.Op.Opts.Once && mustAny && len(got) != 1 {
			out.V("once-missed", "once handler %s had at least one publish it must receive but was invoked %d times", regName(k), len(got))
		}
		fired := s.Op.Opts.Once && len(got) > 0
		switch {
		case len(definite) > 0 || fired:
		case len(cand) > 0:
			uncertain[k] = true
		default:
			alive[k] = true
		}
	}
	// quiescent state: HandlerCount and the probe publishes
	probed := map[int]bool{}
	perProbe := map[[2]int]int{}
	for _, iv := range probeInvs {
		probed[iv.Reg] = true
		perProbe[[2]int{iv.Reg, iv.Ev}]++
		if perProbe[[2]int{iv.Reg, iv.Ev}] > 1 {
			out.V("duplicated-registration", "after quiescence handler %s received probe event %d more than once: a registration was duplicated", regName(iv.Reg), iv.Ev)
		}
		if subOf[iv.Reg] != nil && !alive[iv.Reg] && !uncertain[iv.Reg] {
			out.V("removed-still-registered", "after quiescence handler %s still receives events although it was removed (or is a fired once handler)", regName(iv.Reg))
		}
	}
	for k := range alive {
		if !probed[k] {
			out.V("lost-registration", "after quiescence handler %s (subscribed, never removed, not a fired once handler) did not receive the probe events: the registration was lost", regName(k))
		}
	}
	for ti, c := range counts {
		n := 0
		for k := range probed {
			if k/100 == ti {
				n++
			}
		}
		if c != n {
			out.V("count-after-quiescence", "HandlerCount(E%02d)=%d after quiescence but %d registrations are live (they received the probe events)", ti, c, n)
		}
	}
	out.Summary = fmt.Sprintf("%d init subs, %d tasks, %d ops, %d invocations", len(sc.Init), len(sc.Tasks), len(recs), len(invs))
	return out
}

// twinsOracle: registrations that share a function are interchangeable for Unsubscribe, so the rules are
// stated per function group and hold under every linearization: each successful Unsubscribe removes exactly
// one registration of its function, a fired Once registration retires itself and nothing else.
func (sc *C02Scenario) twinsOracle(out *core.Outcome, recs []*c02OpRec, invs, probeInvs []c02Inv, counts map[int]int) {
	type reg struct {
		r    *c02OpRec
		once bool
	}
	regs := map[int]reg{} // uid -> registration
	var subs, unsubsOK, unsubsErr, pubs []*c02OpRec
	for _, r := range recs {
		switch r.Op.Kind {
		case "sub":
			if r.Err {
				out.V("subscribe-failed", "Subscribe of a valid handler returned an error")
				continue
			}
			subs = append(subs, r)
			regs[r.Op.ID] = reg{r, r.Op.Opts.Once}
		case "unsub":
			if r.Err {
				unsubsErr = append(unsubsErr, r)
			} else {
				unsubsOK = append(unsubsOK, r)
			}
		case "pub":
			pubs = append(pubs, r)
		}
	}
	perEv := map[[2]int]int{}
	total := map[int]int{}
	firedInRun := map[int]bool{}
	for _, iv := range append(append([]c02Inv{}, invs...), probeInvs...) {
		g, ok := regs[iv.Reg]
		if !ok {
			out.V("phantom-handler", "a handler with uid %d ran but no such registration was made", iv.Reg)
			continue
		}
		perEv[[2]int{iv.Reg, iv.Ev}]++
		total[iv.Reg]++
		if perEv[[2]int{iv.Reg, iv.Ev}] > 1 {
			out.V("delivered-twice", "registration uid %d received event %d more than once", iv.Reg, iv.Ev)
		}
		if g.once && total[iv.Reg] > 1 {
			out.V("once-fired-twice", "once registration uid %d ran %d times", iv.Reg, total[iv.Reg])
		}
	}
	for _, iv := range invs {
		if regs[iv.Reg].once {
			firedInRun[iv.Reg] = true
		}
	}
	fns := map[int]bool{}
	for _, s := range subs {
		fns[s.Op.Fn] = true
	}
	for _, u := range append(append([]*c02OpRec{}, unsubsOK...), unsubsErr...) {
		fns[u.Op.Fn] = true
	}
	for fn := range fns {
		nSubs, nOnce := 0, 0
		for _, s := range subs {
			if s.Op.Fn == fn {
				nSubs++
				if s.Op.Opts.Once {
					nOnce++
				}
			}
		}
		nUnsub := 0
		for _, u := range unsubsOK {
			if u.Op.Fn == fn {
				nUnsub++
			}
		}
		if nUnsub > nSubs {
			out.V("unsubscribe-count", "Unsubscribe of function f%d succeeded %d times but only %d registrations of it were ever made", fn, nUnsub, nSubs)
		}
		// per publish: deliveries to the persistent registrations of this function
		for _, p := range pubs {
			d := 0
			for _, iv := range invs {
				if iv.Ev == p.Op.ID && regs[iv.Reg].r != nil && regs[iv.Reg].r.Op.Fn == fn && !regs[iv.Reg].once {
					d++
				}
			}
			before, maybe := 0, 0
			for _, s := range subs {
				if s.Op.Fn != fn || s.Op.Opts.Once {
					continue
				}
				if s.Ret < p.Call {
					before++
				}
				if s.Call < p.Ret {
					maybe++
				}
			}
			unsubMaybe, unsubBefore := 0, 0
			for _, u := range unsubsOK {
				if u.Op.Fn != fn {
					continue
				}
				if u.Call < p.Ret {
					unsubMaybe++
				}
				if u.Ret < p.Call {
					unsubBefore++
				}
			}
			if lower := before - unsubMaybe; d < lower {
				out.V("missed-delivery", "event %d reached %d persistent registrations of f%d; %d were subscribed before the publish was called and at most %d can have been removed by the %d successful Unsubscribe calls started before it returned (each removes exactly one)", p.Op.ID, d, fn, before, unsubMaybe, unsubMaybe)
			}
			removedForSure := unsubBefore - nOnce // unsubscribes that cannot all have hit once registrations
			if removedForSure < 0 {
				removedForSure = 0
			}
			if upper := maybe - removedForSure; d > upper {
				out.V("delivered-after-removal", "event %d reached %d persistent registrations of f%d; at most %d can have been registered (subscribed before the publish returned, minus Unsubscribe calls completed before it was called)", p.Op.ID, d, fn, upper)
			}
		}
		// an Unsubscribe may only fail if there may have been nothing of its function to remove
		for _, u := range unsubsErr {
			if u.Op.Fn != fn {
				continue
			}
			live := 0
			for _, s := range subs {
				if s.Op.Fn == fn && !s.Op.Opts.Once && s.Ret < u.Call {
					live++
				}
			}
			for _, x := range unsubsOK {
				if x.Op.Fn == fn && x.Call < u.Ret {
					live--
				}
			}
			if live > 0 {
				out.V("unsubscribe-refused", "Unsubscribe of f%d returned an error although at least %d persistent registrations of it existed for the whole call (subscribed before it, and too few successful Unsubscribe calls to have removed them)", fn, live)
			}
		}
	}
	// quiescence: HandlerCount, then two probe publishes (all registrations are unfiltered)
	nFired := len(firedInRun)
	for ti, c := range counts {
		hi := len(subs) - len(unsubsOK)
		lo := hi - nFired
		if c < lo || c > hi {
			out.V("count-after-quiescence", "HandlerCount(E%02d)=%d after quiescence; %d registrations were made, %d Unsubscribe calls succeeded (one removal each) and %d once registrations fired: the count must lie in [%d,%d]", ti, c, len(subs), len(unsubsOK), nFired, lo, hi)
		}
		r1, r2 := map[int]bool{}, map[int]bool{}
		for _, iv := range probeInvs {
			if iv.Ev == 1000000 {
				r1[iv.Reg] = true
			} else {
				r2[iv.Reg] = true
			}
		}
		if len(r1) != c {
			out.V("count-after-quiescence", "HandlerCount(E%02d)=%d after quiescence but the first probe event reached %d registrations (%v)", ti, c, len(r1), r1)
		}
		for uid := range r1 {
			if regs[uid].once && firedInRun[uid] {
				out.V("removed-still-registered", "once registration uid %d fired during the run and again for the probe event", uid)
			}
			if !regs[uid].once && !r2[uid] {
				out.V("lost-registration", "persistent registration uid %d received the first probe event but not the second", uid)
			}
		}
		for uid := range r2 {
			if !r1[uid] || regs[uid].once {
				out.V("removed-still-registered", "registration uid %d (once=%v) received the second probe event (first: %v)", uid, regs[uid].once, r1[uid])
			}
		}
	}
}

var propC02 = &core.Property{ID: "C02", Gen: genC02, New: func() core.Scenario { return &C02Scenario{} }}

func TestC02(t *testing.T) { core.RunProperty(t, propC02) }
