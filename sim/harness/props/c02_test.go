package props

import (
	"context"
	"fmt"
	"testing"

	"pgregory.net/rapid"

	"ebusim/core"
	"simshim/simrt"
)

// C02 — Subscribe, Unsubscribe, Clear and Publish stay consistent under every interleaving.

type C02Op struct {
	Kind string  `json:"kind"` // sub, unsub, clear, pub
	Type int     `json:"type"`
	Fn   int     `json:"fn,omitempty"`
	Opts SubOpts `json:"opts,omitempty"`
	ID   int     `json:"id,omitempty"`
}

type C02Scenario struct {
	core.Base
	Init   []C02Op   `json:"init"`  // subscriptions made before the tasks start
	Tasks  [][]C02Op `json:"tasks"` // concurrent tasks
	Yields int       `json:"yields"`
}

type c02OpRec struct {
	Op        C02Op
	Call, Ret int64
	Err       bool
}

func genC02(rt *rapid.T) core.Scenario {
	sc := &C02Scenario{}
	nTypes := rapid.IntRange(1, 2).Draw(rt, "nTypes")
	types := []int{rapid.IntRange(0, len(allTypes)-1).Draw(rt, "type0")}
	if nTypes == 2 {
		types = append(types, (types[0]+1+rapid.IntRange(0, len(allTypes)-2).Draw(rt, "type1"))%len(allTypes))
	}
	nextFn := map[int]int{}
	newSub := func(label string) (C02Op, bool) {
		ti := types[rapid.IntRange(0, len(types)-1).Draw(rt, label+"Type")]
		if nextFn[ti] >= 2*numSites {
			return C02Op{}, false
		}
		// alternate plain / context-aware functions
		n := nextFn[ti]
		nextFn[ti]++
		fn := n / 2
		if n%2 == 1 {
			fn += numSites
		}
		o := SubOpts{
			Once:   rapid.IntRange(0, 3).Draw(rt, label+"Once") == 3,
			Async:  rapid.IntRange(0, 3).Draw(rt, label+"Async") == 3,
			Seq:    rapid.IntRange(0, 5).Draw(rt, label+"Seq") == 5,
			Filter: rapid.SampledFrom([]int{0, 0, 0, 1, 2}).Draw(rt, label+"Filter"),
		}
		return C02Op{Kind: "sub", Type: ti, Fn: fn, Opts: o}, true
	}
	nInit := rapid.IntRange(0, 3).Draw(rt, "nInit")
	for i := 0; i < nInit; i++ {
		if op, ok := newSub("init"); ok {
			sc.Init = append(sc.Init, op)
		}
	}
	nTasks := rapid.IntRange(2, 4).Draw(rt, "nTasks")
	id := 0
	for ti := 0; ti < nTasks; ti++ {
		n := rapid.IntRange(1, 6).Draw(rt, "nOps")
		var ops []C02Op
		for j := 0; j < n; j++ {
			switch rapid.SampledFrom([]string{"sub", "sub", "unsub", "unsub", "clear", "pub", "pub", "pub", "pub"}).Draw(rt, "kind") {
			case "sub":
				if op, ok := newSub("op"); ok {
					ops = append(ops, op)
				}
			case "unsub":
				t := types[rapid.IntRange(0, len(types)-1).Draw(rt, "uType")]
				n := rapid.IntRange(0, 5).Draw(rt, "uFn")
				fn := n / 2
				if n%2 == 1 {
					fn += numSites
				}
				ops = append(ops, C02Op{Kind: "unsub", Type: t, Fn: fn})
			case "clear":
				ops = append(ops, C02Op{Kind: "clear", Type: types[rapid.IntRange(0, len(types)-1).Draw(rt, "cType")]})
			case "pub":
				id++
				ops = append(ops, C02Op{Kind: "pub", Type: types[rapid.IntRange(0, len(types)-1).Draw(rt, "pType")],
					ID: id*2 + rapid.IntRange(0, 1).Draw(rt, "parity")})
			}
		}
		sc.Tasks = append(sc.Tasks, ops)
	}
	sc.Yields = rapid.IntRange(0, 2).Draw(rt, "yields")
	sc.Tape = core.DrawTape(rt, 400)
	return sc
}

type c02Inv struct {
	Reg, Ev int
	Stamp   int64
}

func (sc *C02Scenario) Execute(t *testing.T) *core.Outcome {
	out := &core.Outcome{}
	var w *World
	var recs []*c02OpRec
	var invs []c02Inv
	var probeInvs []c02Inv
	counts := map[int]int{}
	probing := false

	exec := func(op C02Op) *c02OpRec {
		r := &c02OpRec{Op: op}
		recs = append(recs, r)
		r.Call = w.Rec.Add("call-"+op.Kind, regKey(op.Type, op.Fn), op.ID, "")
		switch op.Kind {
		case "sub":
			r.Err = w.Subscribe(op.Type, op.Fn, op.Opts) != nil
		case "unsub":
			r.Err = allTypes[op.Type].Unsub(w, op.Fn) != nil
		case "clear":
			allTypes[op.Type].Clear(w)
		case "pub":
			allTypes[op.Type].Pub(w, context.Background(), op.ID)
		}
		x := ""
		if r.Err {
			x = "err"
		}
		r.Ret = w.Rec.Add("ret-"+op.Kind, regKey(op.Type, op.Fn), op.ID, x)
		return r
	}

	body := func() {
		w = NewWorld()
		w.OnInvoke = func(ti, fn, uid int, ctx context.Context, id int) {
			k := regKey(ti, fn)
			st := w.Rec.Add("enter", k, id, "")
			if probing {
				probeInvs = append(probeInvs, c02Inv{k, id, st})
			} else {
				invs = append(invs, c02Inv{k, id, st})
			}
			for i := 0; i < sc.Yields; i++ {
				simrt.Yield(siteHandler)
			}
			w.Rec.Add("exit", k, id, "")
		}
		for _, op := range sc.Init {
			exec(op)
		}
		var tasks []*simrt.Task
		for i, ops := range sc.Tasks {
			ops := ops
			tasks = append(tasks, simrt.GoNamed(fmt.Sprintf("client%d", i), func() {
				for _, op := range ops {
					exec(op)
				}
			}))
		}
		simrt.Join(tasks...)
		w.Bus.Wait()
		w.Rec.Add("quiescent", 0, 0, "")
		var typesUsed []int
		seen := map[int]bool{}
		for _, r := range recs {
			if !seen[r.Op.Type] {
				seen[r.Op.Type] = true
				typesUsed = append(typesUsed, r.Op.Type)
				counts[r.Op.Type] = allTypes[r.Op.Type].Count(w)
			}
		}
		// probe publishes: one even, one odd id per type, so every filter kind used here accepts one of them
		probing = true
		for _, ti := range typesUsed {
			allTypes[ti].Pub(w, context.Background(), 1000000)
			w.Bus.Wait()
			allTypes[ti].Pub(w, context.Background(), 1000001)
			w.Bus.Wait()
		}
	}
	rep, herr := core.Sim(t, &sc.Base, nil, body)
	out.Rep = rep
	out.HarnessErr = herr
	if rep == nil {
		return out
	}
	if w != nil {
		out.LogHash = w.Rec.Hash()
	}
	out.Nontrivial = rep.Choices > 0
	if rep.Deadlock {
		out.V("deadlock", "%s", rep.DeadlockInfo)
		return out
	}
	if rep.BudgetExceeded {
		out.HarnessErr = "step budget exceeded"
		return out
	}
	for _, p := range rep.Panics {
		out.V("escaped-panic", "%s: %s\n%s", p.Task, p.Value, p.Stack)
	}
	if len(out.Violations) > 0 {
		return out
	}

	// ---------------- oracle (the property, literally)
	var subs, pubs, removals []*c02OpRec
	for _, r := range recs {
		switch r.Op.Kind {
		case "sub":
			if !r.Err {
				subs = append(subs, r)
			}
		case "pub":
			pubs = append(pubs, r)
		case "unsub":
			if !r.Err {
				removals = append(removals, r)
			}
		case "clear":
			removals = append(removals, r)
		}
	}
	nInv := map[[2]int]int{} // (reg, ev) -> count
	perReg := map[int][]int{}
	for _, iv := range invs {
		nInv[[2]int{iv.Reg, iv.Ev}]++
		perReg[iv.Reg] = append(perReg[iv.Reg], iv.Ev)
	}
	subOf := map[int]*c02OpRec{}
	for _, s := range subs {
		subOf[regKey(s.Op.Type, s.Op.Fn)] = s
	}
	for _, iv := range invs {
		if subOf[iv.Reg] == nil {
			out.V("phantom-handler", "handler %s invoked for event %d but it was never successfully subscribed", regName(iv.Reg), iv.Ev)
		}
	}
	alive, uncertain := map[int]bool{}, map[int]bool{}
	for _, s := range subs {
		k := regKey(s.Op.Type, s.Op.Fn)
		var cand, definite []*c02OpRec // removals that may / must have removed this registration
		for _, x := range removals {
			if x.Op.Type != s.Op.Type {
				continue
			}
			if x.Op.Kind == "unsub" {
				if x.Op.Fn == s.Op.Fn {
					cand = append(cand, x)
					definite = append(definite, x)
				}
				continue
			}
			if x.Ret > s.Call { // a Clear that finished before Subscribe was called cannot touch it
				cand = append(cand, x)
				if x.Call > s.Ret {
					definite = append(definite, x)
				}
			}
		}
		got := perReg[k]
		if s.Op.Opts.Once && len(got) > 1 {
			out.V("once-fired-twice", "once handler %s invoked %d times: %v", regName(k), len(got), got)
		}
		mustAny := false
		for _, p := range pubs {
			if p.Op.Type != s.Op.Type {
				continue
			}
			c := nInv[[2]int{k, p.Op.ID}]
			if c > 1 {
				out.V("delivered-twice", "handler %s received event %d %d times", regName(k), p.Op.ID, c)
			}
			accept := filterAccepts(s.Op.Opts.Filter, p.Op.ID)
			mustNot := !accept || s.Call > p.Ret
			for _, x := range definite {
				if x.Ret < p.Call {
					mustNot = true
				}
			}
			must := accept && s.Ret < p.Call
			for _, x := range cand {
				if x.Call < p.Ret {
					must = false
				}
			}
			if mustNot && c > 0 {
				out.V("delivered-after-removal", "handler %s received event %d although it must not (filter accepts=%v, subscribe called #%d, publish #%d..#%d, removals before publish considered)", regName(k), p.Op.ID, accept, s.Call, p.Call, p.Ret)
			}
			if must {
				if s.Op.Opts.Once {
					mustAny = true
				} else if c != 1 {
					out.V("missed-delivery", "handler %s (subscribed #%d..#%d, no removal started before the publish returned) received event %d (published #%d..#%d) %d times, expected exactly once", regName(k), s.Call, s.Ret, p.Op.ID, p.Call, p.Ret, c)
				}
			}
		}
		if s.Op.Opts.Once && mustAny && len(got) != 1 {
			out.V("once-missed", "once handler %s had at least one publish it must receive but was invoked %d times", regName(k), len(got))
		}
		fired := s.Op.Opts.Once && len(got) > 0
		switch {
		case len(definite) > 0 || fired:
		case len(cand) > 0:
			uncertain[k] = true
		default:
			alive[k] = true
		}
	}
	// quiescent state: HandlerCount and the probe publishes
	probed := map[int]bool{}
	perProbe := map[[2]int]int{}
	for _, iv := range probeInvs {
		probed[iv.Reg] = true
		perProbe[[2]int{iv.Reg, iv.Ev}]++
		if perProbe[[2]int{iv.Reg, iv.Ev}] > 1 {
			out.V("duplicated-registration", "after quiescence handler %s received probe event %d more than once: a registration was duplicated", regName(iv.Reg), iv.Ev)
		}
		if subOf[iv.Reg] != nil && !alive[iv.Reg] && !uncertain[iv.Reg] {
			out.V("removed-still-registered", "after quiescence handler %s still receives events although it was removed (or is a fired once handler)", regName(iv.Reg))
		}
	}
	for k := range alive {
		if !probed[k] {
			out.V("lost-registration", "after quiescence handler %s (subscribed, never removed, not a fired once handler) did not receive the probe events: the registration was lost", regName(k))
		}
	}
	for ti, c := range counts {
		n := 0
		for k := range probed {
			if k/100 == ti {
				n++
			}
		}
		if c != n {
			out.V("count-after-quiescence", "HandlerCount(E%02d)=%d after quiescence but %d registrations are live (they received the probe events)", ti, c, n)
		}
	}
	out.Summary = fmt.Sprintf("%d init subs, %d tasks, %d ops, %d invocations", len(sc.Init), len(sc.Tasks), len(recs), len(invs))
	return out
}

var propC02 = &core.Property{ID: "C02", Gen: genC02, New: func() core.Scenario { return &C02Scenario{} }}

func TestC02(t *testing.T) { core.RunProperty(t, propC02) }
