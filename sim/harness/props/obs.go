package props

import (
	"context"
	"time"
)

// nopObs is the smallest possible Observability: it only makes ebu take its
// "observability configured" code paths.
type nopObs struct{}

func (nopObs) OnPublishStart(ctx context.Context, eventType string, event any) context.Context {
	return ctx
}
func (nopObs) OnPublishComplete(ctx context.Context, eventType string) {}
func (nopObs) OnHandlerStart(ctx context.Context, eventType string, async bool) context.Context {
	return ctx
}
func (nopObs) OnHandlerComplete(ctx context.Context, d time.Duration, err error) {}
func (nopObs) OnPersistStart(ctx context.Context, eventType string, position int64) context.Context {
	return ctx
}
func (nopObs) OnPersistComplete(ctx context.Context, d time.Duration, err error) {}
