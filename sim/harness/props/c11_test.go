package props

import (
	"context"
	"encoding/json"
	"errors"
	"fmt"
	"reflect"
	"testing"
	"time"

	eventbus "github.com/jilio/ebu"
	"pgregory.net/rapid"

	"ebusim/core"
	"simshim/simrt"
)

// C11 — Replay delivers every event after the offset, or says that it did not.

type C11Scenario struct {
	core.Base
	Store     StoreCfg `json:"store"`
	BatchSize int      `json:"batch_size"` // WithReplayBatchSize (0 = unset)
	L         int      `json:"l"`          // log length
	From      int      `json:"from"`       // replay from the offset of the From-th event (0 = oldest)
	Fault     string   `json:"fault"`      // none cb-error cancel-before cancel-in-cb read-fail stream-row-fail sql-next sql-query sql-close net-lost-request net-lost-response
	K         int      `json:"k"`          // position of the fault (callback number, page, row, request)
	Yields    int      `json:"yields"`
	// Nested (fault-free runs on MemoryStore / SQLite): the callback's K-th call itself replays the log from the
	// offset of the NestedFrom-th event - two replays of one store overlap, from different start offsets
	Nested     bool `json:"nested,omitempty"`
	NestedFrom int  `json:"nested_from,omitempty"`
	// Odd (bit set): 1 = timestamps are not monotonic in append order (every pair of neighbours is swapped: imported
	// events, a clock stepped back); 2 = every fifth event's data is the JSON document null and every seventh has the
	// empty type string. Log order is append order, and every stored event is an event.
	Odd int `json:"odd,omitempty"`
}

// c11Event is the i-th event of the log; c11Index recovers i from what a replay hands to the callback (the
// timestamp is unique per event, whatever the data is).
func (sc *C11Scenario) c11Event(i int) *eventbus.Event {
	ev := &eventbus.Event{Type: fmt.Sprintf("T%d", i%3), Data: json.RawMessage(fmt.Sprintf(`{"i":%d}`, i)), Timestamp: time.Unix(int64(i), 0).UTC()}
	if sc.Odd&1 != 0 {
		ev.Timestamp = time.Unix(int64(i^1), 0).UTC()
	}
	if sc.Odd&2 != 0 {
		if i%5 == 4 {
			ev.Data = json.RawMessage(`null`)
		}
		if i%7 == 6 {
			ev.Type = ""
		}
	}
	return ev
}

func (sc *C11Scenario) c11Index(e *eventbus.StoredEvent) int {
	var d struct{ I *int }
	if json.Unmarshal(e.Data, &d) == nil && d.I != nil {
		return *d.I
	}
	i := int(e.Timestamp.Unix())
	if sc.Odd&1 != 0 {
		i ^= 1
	}
	return i
}

func genC11(rt *rapid.T) core.Scenario {
	sc := &C11Scenario{}
	kind := rapid.SampledFrom([]string{"mem", "mem-paged", "sqlite", "sqlite-batched", "sqlite-batched", "sqlite-paged", "ds"}).Draw(rt, "storeKind")
	switch kind {
	case "mem":
		sc.Store = StoreCfg{Kind: "mem"}
	case "mem-paged":
		sc.Store = StoreCfg{Kind: "mem", HideStreamer: true}
	case "sqlite":
		sc.Store = StoreCfg{Kind: "sqlite"}
	case "sqlite-batched":
		sc.Store = StoreCfg{Kind: "sqlite", StreamBatch: rapid.SampledFrom([]int{1, 2, 3, 7}).Draw(rt, "streamBatch")}
	case "sqlite-paged":
		sc.Store = StoreCfg{Kind: "sqlite", HideStreamer: true}
	case "ds":
		sc.Store = StoreCfg{Kind: "ds", ChunkSize: rapid.SampledFrom([]int{0, 0, 64, 256}).Draw(rt, "chunk")}
	}
	if sc.Store.HideStreamer && sc.Store.Kind != "ds" {
		sc.Store.ShortReads = rapid.IntRange(0, 2).Draw(rt, "shortReads") == 2
	}
	if sc.Store.Kind != "mem" {
		sc.Store.Instr = rapid.IntRange(0, 3).Draw(rt, "instr") == 3
	}
	sc.BatchSize = rapid.SampledFrom([]int{0, 1, 2, 3, 5, 100}).Draw(rt, "batchSize")
	sc.L = rapid.IntRange(0, 40).Draw(rt, "L")
	if rapid.IntRange(0, 2).Draw(rt, "small") > 0 {
		sc.L = rapid.IntRange(0, 12).Draw(rt, "Lsmall")
	}
	sc.From = rapid.IntRange(0, sc.L).Draw(rt, "from")
	faults := []string{"none", "cb-error", "cancel-before", "cancel-in-cb", "cancel-and-error-in-cb", "read-fail", "read-fail-eof"}
	if sc.Store.Kind == "mem" && !sc.Store.HideStreamer {
		faults = append(faults, "stream-row-fail", "stream-row-fail-eof")
	}
	if sc.Store.Kind == "sqlite" {
		faults = append(faults, "sql-next", "sql-next", "sql-query", "sql-close")
	}
	if sc.Store.Kind == "ds" {
		faults = append(faults, "net-lost-request", "net-lost-response", "net-delay-past-deadline", "net-http-404", "net-http-500")
	}
	sc.Fault = rapid.SampledFrom(faults).Draw(rt, "fault")
	sc.K = rapid.IntRange(0, sc.L+1).Draw(rt, "k")
	sc.Yields = rapid.IntRange(0, 1).Draw(rt, "yields")
	if rapid.IntRange(0, 2).Draw(rt, "oddLog") == 2 {
		sc.Odd = rapid.IntRange(1, 3).Draw(rt, "odd")
	}
	if sc.Fault == "none" && sc.Store.Kind != "ds" && rapid.IntRange(0, 1).Draw(rt, "nested") == 1 {
		sc.Nested = true
		sc.NestedFrom = rapid.IntRange(0, sc.L).Draw(rt, "nestedFrom")
	}
	return sc
}

func (sc *C11Scenario) Execute(t *testing.T) *core.Outcome {
	out := &core.Outcome{}
	var rec core.Recorder
	kind := sc.Store.Kind
	body := func() {
		env := newStoreEnv()
		defer env.Close()
		sf := &sqlFaults{FailNextAtRow: -1, FailQueryAt: -1, FailCloseAt: -1, Fired: map[string]int{}}
		if kind == "sqlite" {
			defer installFaultySQLite(sf)()
		}
		inner, err := env.openStore(sc.Store, "main")
		if err != nil {
			out.HarnessErr = err.Error()
			return
		}
		ctx := context.Background()
		var offs []eventbus.Offset
		for i := 0; i < sc.L; i++ {
			off, err := inner.Append(ctx, sc.c11Event(i))
			if err != nil {
				out.HarnessErr = "append: " + err.Error()
				return
			}
			offs = append(offs, off)
		}
		plan := FaultPlan{}
		fc := newFcore(inner, plan, &rec)
		fc.ShortReads = sc.Store.ShortReads
		opts := []eventbus.Option{eventbus.WithStore(fc.wrap(sc.Store.HideStreamer))}
		if sc.BatchSize > 0 {
			opts = append(opts, eventbus.WithReplayBatchSize(sc.BatchSize))
		}
		bus := eventbus.New(opts...)
		handlerCalls := 0
		eventbus.Subscribe(bus, func(e E00) { handlerCalls++ })
		eventbus.Subscribe(bus, func(e any) { handlerCalls++ })
		from := eventbus.OffsetOldest
		if sc.From > 0 {
			from = offs[sc.From-1]
			if kind == "ds" {
				// durable-streams: only offsets returned by Append / next offsets are resumable; Append offsets are chunk ends
			}
		}
		want := sc.L - sc.From
		rctx, cancel := context.WithCancel(ctx)
		defer func() { cancel() }()
		// arm the fault
		switch sc.Fault {
		case "cancel-before":
			cancel()
		case "read-fail", "read-fail-eof":
			fc.plan.FailRead = []int{fc.n["read"] + sc.K%4}
			fc.ReadFailsWithEOF = sc.Fault == "read-fail-eof"
		case "stream-row-fail", "stream-row-fail-eof":
			fc.plan.FailStreamRow = []int{fc.rows + sc.K}
			fc.ReadFailsWithEOF = sc.Fault == "stream-row-fail-eof"
		case "sql-next":
			sf.FailNextAtRow = sf.rows + sc.K
		case "sql-query":
			sf.FailQueryAt = sf.queries + sc.K%3
		case "sql-close":
			sf.FailCloseAt = sf.closes + sc.K%3
		case "net-lost-request", "net-lost-response", "net-http-404", "net-http-500":
			srv := env.servers["main"]
			srv.GetFaults[srv.nGet+sc.K%3] = sc.Fault[4:]
		case "net-delay-past-deadline":
			// the replay context has a 10 ms deadline; the j-th GET is held for 50 ms of simulated time
			srv := env.servers["main"]
			srv.DelayGet[srv.nGet+sc.K%3] = 50 * time.Millisecond
			cancel()
			rctx, cancel = context.WithTimeout(ctx, 10*time.Millisecond)
		}
		var got []int
		cbErr := errors.New("callback failed")
		calls := 0
		cancelledAt := -1
		callsAfterErr := 0
		erred := false
		rerr := bus.Replay(rctx, from, func(e *eventbus.StoredEvent) error {
			if erred {
				callsAfterErr++
			}
			ix := sc.c11Index(e)
			got = append(got, ix)
			rec.Add("cb", ix, 0, "")
			k := calls
			calls++
			for i := 0; i < sc.Yields; i++ {
				simrt.Yield(siteCallback)
			}
			if sc.Nested && k == sc.K {
				nfrom := eventbus.OffsetOldest
				if sc.NestedFrom > 0 {
					nfrom = offs[sc.NestedFrom-1]
				}
				var ngot []int
				nerr := bus.Replay(ctx, nfrom, func(e *eventbus.StoredEvent) error {
					ngot = append(ngot, sc.c11Index(e))
					return nil
				})
				if nerr != nil || !reflect.DeepEqual(ngot, seq(sc.NestedFrom, sc.L)) && !(len(ngot) == 0 && sc.NestedFrom == sc.L) {
					out.V("replay-gap-or-duplicate", "[%s batch=%d] a replay started from inside another replay's callback (from event %d, L=%d) delivered %v and returned %v", sc.Store, sc.BatchSize, sc.NestedFrom, sc.L, ngot, nerr)
				}
			}
			if sc.Fault == "cb-error" && k == sc.K {
				erred = true
				return cbErr
			}
			if (sc.Fault == "cancel-in-cb" || sc.Fault == "cancel-and-error-in-cb") && k == sc.K {
				cancelledAt = len(got)
				cancel()
				simrt.Settle() // database/sql reacts to the cancellation in a goroutine of its own: let it finish first
				if sc.Fault == "cancel-and-error-in-cb" {
					erred = true
					return cbErr
				}
			}
			return nil
		})
		rec.Add("replay-ret", len(got), 0, fmt.Sprint(rerr != nil))
		fired := fc.Fired["read-fails"] + fc.Fired["stream-row-fails"]
		for _, v := range sf.Fired {
			fired += v
		}
		if srv := env.servers["main"]; srv != nil {
			fired += srv.Fired["lost-request"] + srv.Fired["lost-response"] + srv.Fired["request-delayed"] + srv.Fired["http-404"] + srv.Fired["http-500"]
		}
		if fired > 0 || erred || cancelledAt >= 0 || sc.Fault == "cancel-before" {
			out.Fault(sc.Fault)
		}
		// durable-streams: a limited Read that truncates a chunk loses the rest of it (known finding, C10);
		// that can only happen when the replay batch is smaller than the number of events to deliver
		eff := sc.BatchSize
		if eff <= 0 {
			eff = 100
		}
		sig := func(s string) string {
			if kind == "ds" && eff < want {
				return "ds:replay-after-truncating-read"
			}
			return kind + ":" + s
		}
		// delivered sequence: a gap-free, duplicate-free, in-order prefix of the events after `from`
		for i, v := range got {
			if v != sc.From+i {
				out.VS("replay-gap-or-duplicate", sig("replay-sequence"), "[%s batch=%d] Replay from event %d delivered %v: position %d should be event %d (L=%d)", sc.Store, sc.BatchSize, sc.From, got, i, sc.From+i, sc.L)
				break
			}
		}
		complete := len(got) == want && reflect.DeepEqual(got, seq(sc.From, sc.L))
		if rerr == nil && !complete {
			out.VS("replay-nil-but-incomplete", sig("replay-nil-incomplete/"+sc.Fault), "[%s batch=%d] Replay returned nil after delivering %d of the %d events after the offset (fault %s at %d, fired=%d)", sc.Store, sc.BatchSize, len(got), want, sc.Fault, sc.K, fired)
		}
		if erred {
			if rerr == nil {
				out.V("callback-error-swallowed", "[%s] the callback returned an error on call %d but Replay returned nil", sc.Store, sc.K)
			}
			if callsAfterErr > 0 {
				out.V("callback-called-after-error", "[%s] the callback was called %d more times after it had returned an error", sc.Store, callsAfterErr)
			}
		}
		if sc.Fault == "cancel-before" && (rerr == nil && want > 0 || len(got) > 0) {
			out.V("cancelled-replay", "[%s] Replay with an already cancelled context delivered %d events and returned %v", sc.Store, len(got), rerr)
		}
		if cancelledAt >= 0 && cancelledAt < want && rerr == nil {
			// the context was cancelled while events were still to be delivered: that is never "delivered all, nil"
			out.VS("cancel-not-reported", sig("cancel-not-reported"), "[%s batch=%d] the callback cancelled the context at its call %d of %d, yet Replay returned nil (delivered %d)", sc.Store, sc.BatchSize, cancelledAt, want, len(got))
		}
		if sc.Fault == "none" && rerr != nil {
			out.V("replay-error", "[%s batch=%d] fault-free Replay returned %v", sc.Store, sc.BatchSize, rerr)
		}
		if fired > 0 && !complete && rerr == nil {
			// covered by replay-nil-but-incomplete
		}
		// replaying never appends and never invokes subscribed handlers
		evs, _, err := inner.Read(ctx, eventbus.OffsetOldest, 0)
		if err == nil && kind != "ds" && len(evs) != sc.L {
			out.V("replay-appended", "store holds %d events after Replay, had %d", len(evs), sc.L)
		}
		if handlerCalls != 0 {
			out.V("replay-invoked-handlers", "Replay invoked subscribed handlers %d times", handlerCalls)
		}
	}
	rep, herr := core.Sim(t, &sc.Base, nil, body)
	out.Rep = rep
	if out.HarnessErr == "" {
		out.HarnessErr = herr
		if call, hung := storeHang(rep); hung {
			out.HarnessErr = ""
			out.V("store-call-never-returned", "a call into the store did not return although nothing else was runnable and a minute of simulated time had passed: %s", call)
			return out
		}
	}
	if rep == nil {
		return out
	}
	out.LogHash = rec.Hash()
	out.Nontrivial = sc.L > 0
	for _, p := range rep.Panics {
		out.V("escaped-panic", "[%s] %s: %s\n%s", sc.Store, p.Task, p.Value, p.Stack)
	}
	if rep.BudgetExceeded || rep.Deadlock {
		out.V("replay-did-not-return", "[%s] Replay did not return (deadlock=%v)", sc.Store, rep.Deadlock)
	}
	out.Summary = fmt.Sprintf("store %s batch %d, L=%d from=%d, fault %s at %d", sc.Store, sc.BatchSize, sc.L, sc.From, sc.Fault, sc.K)
	return out
}

func seq(a, b int) []int {
	var s []int
	for i := a; i < b; i++ {
		s = append(s, i)
	}
	return s
}

// c11Grid enumerates the whole (store configuration, replay batch size, log length, start offset,
// fault kind, fault position) grid up to a small log length.
func c11Grid(tier string, yield func(core.Scenario)) string {
	maxL := 3
	if tier == "thorough" {
		maxL = 6
	}
	stores := []StoreCfg{{Kind: "mem"}, {Kind: "mem", HideStreamer: true}, {Kind: "mem", HideStreamer: true, ShortReads: true},
		{Kind: "sqlite"}, {Kind: "sqlite", StreamBatch: 1}, {Kind: "sqlite", StreamBatch: 2}, {Kind: "sqlite", StreamBatch: 3},
		{Kind: "sqlite", HideStreamer: true}, {Kind: "ds"}}
	n := 0
	for _, st := range stores {
		batches := []int{0}
		if st.HideStreamer || st.Kind == "ds" {
			batches = []int{0, 1, 2, 3}
		}
		faults := []string{"none", "cb-error", "cancel-before", "cancel-in-cb", "cancel-and-error-in-cb", "read-fail"}
		switch {
		case st.Kind == "mem" && !st.HideStreamer:
			faults = append(faults, "stream-row-fail")
		case st.Kind == "sqlite":
			faults = append(faults, "sql-next", "sql-query", "sql-close")
		case st.Kind == "ds":
			faults = append(faults, "net-lost-request", "net-lost-response", "net-delay-past-deadline")
		}
		for _, b := range batches {
			for L := 0; L <= maxL; L++ {
				for from := 0; from <= L; from++ {
					for _, f := range faults {
						ks := []int{0}
						if f != "none" && f != "cancel-before" {
							ks = nil
							for k := 0; k <= L-from+1; k++ {
								ks = append(ks, k)
							}
						}
						for _, k := range ks {
							n++
							yield(&C11Scenario{Store: st, BatchSize: b, L: L, From: from, Fault: f, K: k})
						}
					}
				}
			}
		}
	}
	// long logs: beyond any "reasonable" internal cap or buffer size (10 000, 2^13, 2^14 ...)
	long := []StoreCfg{{Kind: "sqlite"}, {Kind: "mem"}}
	if tier == "thorough" {
		long = append(long, StoreCfg{Kind: "sqlite", StreamBatch: 7}, StoreCfg{Kind: "sqlite", HideStreamer: true}, StoreCfg{Kind: "mem", HideStreamer: true})
	}
	for i, st := range long {
		n++
		yield(&C11Scenario{Store: st, L: 16500 + i, From: 3 * i, Fault: "none"})
		// and lengths right at the powers of two and "round" numbers where internal chunks and caps tend to sit
		for _, l := range []int{1023, 1024, 1025, 2049, 4096, 10001} {
			if tier == "thorough" || st.Kind == "mem" {
				n++
				yield(&C11Scenario{Store: st, L: l, From: l % 3, Fault: "none"})
			}
		}
	}
	return fmt.Sprintf("the full grid of %d cases (the last few: fault-free replays of logs of 16 500 events): 9 store configurations x replay batch sizes {unset,1,2,3} (paged stores) x log length 0..%d x every start offset x every applicable fault kind x every fault position 0..remaining+1", n, maxL)
}

var propC11 = &core.Property{ID: "C11", Gen: genC11, New: func() core.Scenario { return &C11Scenario{} }, Explicit: c11Grid}

func TestC11(t *testing.T) { core.RunProperty(t, propC11) }
