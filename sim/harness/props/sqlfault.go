package props

import (
	"context"
	"database/sql"
	"database/sql/driver"
	"errors"
	"io"
	"strings"
	"sync"

	ebusqlite "github.com/jilio/ebu/stores/sqlite"
	modernc "modernc.org/sqlite"
)

// A fault-injecting database/sql driver around the real modernc SQLite driver. It is put
// underneath stores/sqlite through the tag-guarded hook SetDBOpenerForVerif.

// sqlFaults is the plan of the current run (one simulation at a time per process).
type sqlFaults struct {
	FailNextAtRow int // rows.Next of a SELECT on events fails instead of returning the r-th row of the run (-1: never)
	FailQueryAt   int // the q-th SELECT on events fails (-1: never)
	FailCloseAt   int // the c-th Rows.Close of such a SELECT fails (-1: never)
	FailSubExecAt int // the x-th statement executed against subscription_positions fails (0: never; 1-based)
	FailSubQueryAt int // the x-th SELECT against subscription_positions fails (0: never; 1-based)
	subQueries     int
	subExecs      int
	rows, queries, closes int
	Fired         map[string]int
}

var curSQLFaults *sqlFaults

var errSQLInjected = errors.New("injected SQL driver failure")

var registerFaultyOnce sync.Once

func installFaultySQLite(f *sqlFaults) (restore func()) {
	registerFaultyOnce.Do(func() {
		var inner driver.Driver = &modernc.Driver{}
		if db, err := sql.Open("sqlite", ":memory:"); err == nil { // the driver instance stores/sqlite registered
			inner = db.Driver()
			db.Close()
		}
		sql.Register("sqlite-faulty", &faultyDriver{inner: inner})
	})
	curSQLFaults = f
	r := ebusqlite.SetDBOpenerForVerif(func(driverName, dsn string) (*sql.DB, error) {
		return sql.Open("sqlite-faulty", dsn)
	})
	return func() { r(); curSQLFaults = nil }
}

type faultyDriver struct{ inner driver.Driver }

func (d *faultyDriver) Open(name string) (driver.Conn, error) {
	c, err := d.inner.Open(name)
	if err != nil {
		return nil, err
	}
	return &faultyConn{c}, nil
}

type faultyConn struct{ driver.Conn }

func isEventSelect(q string) bool {
	return strings.Contains(q, "FROM events") && strings.HasPrefix(strings.TrimSpace(strings.ToUpper(q)), "SELECT")
}

func (c *faultyConn) PrepareContext(ctx context.Context, q string) (driver.Stmt, error) {
	var s driver.Stmt
	var err error
	if p, ok := c.Conn.(driver.ConnPrepareContext); ok {
		s, err = p.PrepareContext(ctx, q)
	} else {
		s, err = c.Conn.Prepare(q)
	}
	if err != nil {
		return nil, err
	}
	return &faultyStmt{Stmt: s, watched: isEventSelect(q), subQuery: isSubSelect(q), subExec: strings.Contains(q, "subscription_positions") && !strings.HasPrefix(strings.TrimSpace(strings.ToUpper(q)), "SELECT") && !strings.HasPrefix(strings.TrimSpace(strings.ToUpper(q)), "CREATE")}, nil
}

func (c *faultyConn) Prepare(q string) (driver.Stmt, error) { return c.PrepareContext(context.Background(), q) }

func (c *faultyConn) BeginTx(ctx context.Context, opts driver.TxOptions) (driver.Tx, error) {
	if b, ok := c.Conn.(driver.ConnBeginTx); ok {
		return b.BeginTx(ctx, opts)
	}
	return c.Conn.Begin()
}

func (c *faultyConn) ExecContext(ctx context.Context, q string, args []driver.NamedValue) (driver.Result, error) {
	u := strings.TrimSpace(strings.ToUpper(q))
	if strings.Contains(q, "subscription_positions") && !strings.HasPrefix(u, "SELECT") && !strings.HasPrefix(u, "CREATE") && subExecFault() {
		return nil, errSQLInjected
	}
	if e, ok := c.Conn.(driver.ExecerContext); ok {
		return e.ExecContext(ctx, q, args)
	}
	return nil, driver.ErrSkip
}

func (c *faultyConn) QueryContext(ctx context.Context, q string, args []driver.NamedValue) (driver.Rows, error) {
	qc, ok := c.Conn.(driver.QueryerContext)
	if !ok {
		return nil, driver.ErrSkip
	}
	watched := isEventSelect(q)
	if watched && queryFault() {
		return nil, errSQLInjected
	}
	if isSubSelect(q) && subQueryFault() {
		return nil, errSQLInjected
	}
	r, err := qc.QueryContext(ctx, q, args)
	if err != nil {
		return nil, err
	}
	if watched {
		return &faultyRows{Rows: r}, nil
	}
	return r, nil
}

func (c *faultyConn) Ping(ctx context.Context) error {
	if p, ok := c.Conn.(driver.Pinger); ok {
		return p.Ping(ctx)
	}
	return nil
}

func (c *faultyConn) ResetSession(ctx context.Context) error {
	if r, ok := c.Conn.(driver.SessionResetter); ok {
		return r.ResetSession(ctx)
	}
	return nil
}

func (c *faultyConn) IsValid() bool {
	if v, ok := c.Conn.(driver.Validator); ok {
		return v.IsValid()
	}
	return true
}

type faultyStmt struct {
	driver.Stmt
	watched  bool
	subExec  bool
	subQuery bool
}

func isSubSelect(q string) bool {
	return strings.Contains(q, "subscription_positions") && strings.HasPrefix(strings.TrimSpace(strings.ToUpper(q)), "SELECT")
}

func subQueryFault() bool {
	f := curSQLFaults
	if f == nil || f.FailSubQueryAt <= 0 {
		return false
	}
	f.subQueries++
	if f.subQueries == f.FailSubQueryAt {
		f.Fired["sql-subscription-read-fails"]++
		return true
	}
	return false
}

func subExecFault() bool {
	f := curSQLFaults
	if f == nil || f.FailSubExecAt <= 0 {
		return false
	}
	f.subExecs++
	if f.subExecs == f.FailSubExecAt {
		f.Fired["sql-subscription-write-fails"]++
		return true
	}
	return false
}

func (s *faultyStmt) ExecContext(ctx context.Context, args []driver.NamedValue) (driver.Result, error) {
	if s.subExec && subExecFault() {
		return nil, errSQLInjected
	}
	if e, ok := s.Stmt.(driver.StmtExecContext); ok {
		return e.ExecContext(ctx, args)
	}
	return nil, driver.ErrSkip
}

func queryFault() bool {
	f := curSQLFaults
	if f == nil {
		return false
	}
	q := f.queries
	f.queries++
	if q == f.FailQueryAt {
		f.Fired["sql-query-fails"]++
		return true
	}
	return false
}

func (s *faultyStmt) QueryContext(ctx context.Context, args []driver.NamedValue) (driver.Rows, error) {
	q, ok := s.Stmt.(driver.StmtQueryContext)
	if !ok {
		return nil, driver.ErrSkip
	}
	if s.watched && queryFault() {
		return nil, errSQLInjected
	}
	if s.subQuery && subQueryFault() {
		return nil, errSQLInjected
	}
	r, err := q.QueryContext(ctx, args)
	if err != nil {
		return nil, err
	}
	if s.watched {
		return &faultyRows{Rows: r}, nil
	}
	return r, nil
}

type faultyRows struct {
	driver.Rows
	failed bool
}

func (r *faultyRows) Next(dest []driver.Value) error {
	if f := curSQLFaults; f != nil {
		err := r.Rows.Next(dest)
		if err == io.EOF || err != nil {
			return err
		}
		n := f.rows
		f.rows++
		if n == f.FailNextAtRow {
			f.Fired["sql-row-iteration-fails"]++
			r.failed = true
			return errSQLInjected
		}
		return nil
	}
	return r.Rows.Next(dest)
}

func (r *faultyRows) Close() error {
	err := r.Rows.Close()
	if f := curSQLFaults; f != nil {
		c := f.closes
		f.closes++
		if c == f.FailCloseAt && err == nil {
			f.Fired["sql-rows-close-fails"]++
			return errSQLInjected
		}
	}
	return err
}

// pass the optional column metadata through (modernc decides DATETIME conversion itself in Next)
func (r *faultyRows) ColumnTypeDatabaseTypeName(i int) string {
	if c, ok := r.Rows.(driver.RowsColumnTypeDatabaseTypeName); ok {
		return c.ColumnTypeDatabaseTypeName(i)
	}
	return ""
}
