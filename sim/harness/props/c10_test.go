package props

import (
	"bytes"
	"math"
	"context"
	"encoding/json"
	"fmt"
	"reflect"
	"strings"
	"testing"
	"time"

	"github.com/anishathalye/porcupine"
	eventbus "github.com/jilio/ebu"
	"pgregory.net/rapid"

	"ebusim/core"
	"simshim/simrt"
)

// C10 — every bundled store behaves as one append-only, resumable log.

type C10Ev struct {
	Type string `json:"type"`
	Data string `json:"data"`
	Sec  int64  `json:"sec"`
	Nano int    `json:"nano"`
	Zone int    `json:"zone"`
}

type C10Op struct {
	Kind  string `json:"kind"` // append read stream save load
	Ev    *C10Ev `json:"ev,omitempty"`
	From  int    `json:"from,omitempty"`  // index into the offsets seen so far (mod len); <0: oldest
	Limit int    `json:"limit,omitempty"` // read
	Stop  int    `json:"stop,omitempty"`  // stream: stop after this many events (0 = drain)
	Sub   int    `json:"sub,omitempty"`
	H     int    `json:"h,omitempty"` // with TwoHandles: 1 = through the second handle on the same database file
}

type C10Scenario struct {
	core.Base
	Store      StoreCfg  `json:"store"`
	Ops        []C10Op   `json:"ops"`
	Concurrent [][]C10Op `json:"concurrent,omitempty"` // scenario B: tasks appending/reading concurrently
	NetFaults  map[int]string `json:"net_faults,omitempty"` // durable-streams: request index -> lost-request / lost-response
	// ConcOpen (SQLite): the "other" store of the isolation check is created by a second task while the first creates the main one
	ConcOpen bool `json:"conc_open,omitempty"`
	// TwoHandles (file-based SQLite): a second store handle is opened on the same database file - another
	// component of the process, or a restarted writer next to a lingering reader - and part of the operations
	// go through it; a "close-b" operation closes it again while the first handle stays in use. It is one log.
	TwoHandles bool `json:"two_handles,omitempty"`
}

var c10Zones = []*time.Location{
	time.UTC,
	time.FixedZone("CET", 3600),
	time.FixedZone("", 3600),   // unnamed: what time.Parse produces for "+01:00"
	time.FixedZone("", 5400),   // half-hour offset
	time.FixedZone("x", -27000), // odd name, -07:30
	time.FixedZone("", -43200),
	time.FixedZone("LMT", 3464), // local mean time zones carry seconds: what time.LoadLocation yields for 19th-century dates (+00:57:44)
	time.FixedZone("", -1172),   // -00:19:32
}

// event builds the stored event; seq makes every appended event unique ({"n":seq,"v":<generated document>}),
// so that a shifted (gapped or repeated) result is never mistaken for a corrupted field.
func (e *C10Ev) event(seq int) *eventbus.Event {
	return &eventbus.Event{Type: e.Type, Data: json.RawMessage(fmt.Sprintf(`{"n":%d,"v":%s}`, seq, e.Data)), Timestamp: time.Unix(e.Sec, int64(e.Nano)).In(c10Zones[e.Zone%len(c10Zones)])}
}

func genJSON(rt *rapid.T, depth int) any {
	k := rapid.IntRange(0, 7).Draw(rt, "jsonKind")
	if depth <= 0 && k >= 6 {
		k = 2
	}
	switch k {
	case 0:
		return nil
	case 1:
		return rapid.Bool().Draw(rt, "b")
	case 2:
		return rapid.SampledFrom([]string{"", "a", "héllo ✓ 日本", "<tag>&\"quote\"\\", "line\nbreak\ttab", "  ", "0", "null"}).Draw(rt, "s")
	case 3:
		return rapid.Int64().Draw(rt, "i")
	case 4:
		return rapid.SampledFrom([]float64{0, -0.5, 1e-9, 1.7976931348623157e308, 123456789.125}).Draw(rt, "f")
	case 5:
		return json.Number(rapid.SampledFrom([]string{"12345678901234567890", "-0", "1e300", "0.1000"}).Draw(rt, "n"))
	case 6:
		n := rapid.IntRange(0, 3).Draw(rt, "arrLen")
		a := make([]any, n)
		for i := range a {
			a[i] = genJSON(rt, depth-1)
		}
		return a
	default:
		n := rapid.IntRange(0, 3).Draw(rt, "objLen")
		m := map[string]any{}
		for i := 0; i < n; i++ {
			m[rapid.SampledFrom([]string{"a", "b", "id", "ключ", "", "offset", "type"}).Draw(rt, "key")] = genJSON(rt, depth-1)
		}
		return m
	}
}

func genC10Ev(rt *rapid.T) *C10Ev {
	data, err := json.Marshal(genJSON(rt, 2))
	if err != nil {
		data = []byte("null")
	}
	typ := rapid.SampledFrom([]string{"T", "pkg.Event", "", "тип-ü/✓", "with space", "x.v2", strings.Repeat("long", 1024)}).Draw(rt, "evType")
	sec := rapid.SampledFrom([]int64{0, 1, 1700000000, 1759500000, 4102444800, 253402300799, -62135596800, -1}).Draw(rt, "sec")
	if rapid.Bool().Draw(rt, "secJitter") {
		sec += int64(rapid.IntRange(-100000, 100000).Draw(rt, "jit"))
	}
	// keep the wall-clock year within 1..9999 in every zone used (RFC 3339 cannot write others)
	if sec > 253402300799-86400 {
		sec = 253402300799 - 86400
	}
	if sec < -62135596800+86400 {
		sec = -62135596800 + 86400
	}
	return &C10Ev{Type: typ, Data: string(data), Sec: sec,
		Nano: rapid.SampledFrom([]int{0, 1, 999999999, 123456789, 500000000, 1000}).Draw(rt, "nano"),
		Zone: rapid.IntRange(0, len(c10Zones)-1).Draw(rt, "zone")}
}

func genC10Op(rt *rapid.T, kinds []string) C10Op {
	op := C10Op{Kind: rapid.SampledFrom(kinds).Draw(rt, "opKind")}
	switch op.Kind {
	case "append", "append-dead":
		op.Ev = genC10Ev(rt)
	case "read":
		op.From = rapid.IntRange(-1, 40).Draw(rt, "from")
		op.Limit = rapid.SampledFrom([]int{-1, 0, 0, 1, 2, 3, 7, 1000, math.MaxInt32, math.MaxInt}).Draw(rt, "limit")
	case "stream":
		op.From = rapid.IntRange(-1, 40).Draw(rt, "from")
		op.Stop = rapid.IntRange(0, 4).Draw(rt, "stop")
	case "save":
		op.Sub = rapid.IntRange(0, 2).Draw(rt, "sub")
		op.From = rapid.IntRange(-1, 40).Draw(rt, "from")
	case "load":
		op.Sub = rapid.IntRange(0, 3).Draw(rt, "sub")
	}
	return op
}

// subscription ids: arbitrary strings; two of them differ only in letter case, one is empty-ish
func c10SubID(i int) string {
	return []string{"sub-0", "SUB-0", "sub-1", "Sub-1 ü/%"}[i%4]
}

func genStoreCfg(rt *rapid.T) StoreCfg {
	c := StoreCfg{Kind: rapid.SampledFrom([]string{"mem", "mem", "sqlite", "sqlite", "ds"}).Draw(rt, "store")}
	switch c.Kind {
	case "sqlite":
		c.StreamBatch = rapid.SampledFrom([]int{0, 0, 1, 2, 3, 100}).Draw(rt, "streamBatch")
		c.InMemory = rapid.IntRange(0, 4).Draw(rt, "inMemory") == 4
	case "ds":
		c.ChunkSize = rapid.SampledFrom([]int{0, 0, 0, 64, 256}).Draw(rt, "chunk")
	}
	if c.Kind != "mem" {
		c.Instr = rapid.IntRange(0, 3).Draw(rt, "instr") == 3
	}
	return c
}

func genC10(rt *rapid.T) core.Scenario {
	sc := &C10Scenario{Store: genStoreCfg(rt)}
	sc.ConcOpen = sc.Store.Kind == "sqlite" && rapid.IntRange(0, 2).Draw(rt, "concOpen") == 2
	sc.TwoHandles = sc.Store.Kind == "sqlite" && !sc.Store.InMemory && rapid.IntRange(0, 2).Draw(rt, "twoHandles") == 2
	mode := rapid.IntRange(0, 9).Draw(rt, "mode")
	n := rapid.IntRange(1, 30).Draw(rt, "nOps")
	if rapid.IntRange(0, 9).Draw(rt, "long") == 9 {
		n = rapid.IntRange(30, 120).Draw(rt, "nOpsLong") // push the log past 10 and 100 entries
	}
	kinds := []string{"append", "append", "append", "read", "read", "stream", "save", "load", "append-other"}
	if sc.Store.Kind != "ds" && rapid.IntRange(0, 2).Draw(rt, "deadAppends") == 2 {
		kinds = append(kinds, "append-dead")
	}
	if sc.TwoHandles {
		kinds = append(kinds, "close-b")
	}
	for i := 0; i < n; i++ {
		op := genC10Op(rt, kinds)
		if sc.TwoHandles {
			op.H = rapid.IntRange(0, 1).Draw(rt, "handle")
		}
		sc.Ops = append(sc.Ops, op)
	}
	if sc.TwoHandles && rapid.Bool().Draw(rt, "saveDance") {
		// one subscription saved through both handles in turn, ending on a position the first handle has saved
		// before: what a handle remembers about its own earlier saves says nothing about the database
		sub := rapid.IntRange(0, 2).Draw(rt, "danceSub")
		f1 := rapid.IntRange(-1, 6).Draw(rt, "danceFrom1")
		f2 := rapid.IntRange(-1, 6).Draw(rt, "danceFrom2")
		sc.Ops = append(sc.Ops,
			C10Op{Kind: "save", Sub: sub, From: f1, H: 0}, C10Op{Kind: "save", Sub: sub, From: f2, H: 1},
			C10Op{Kind: "save", Sub: sub, From: f1, H: 0}, C10Op{Kind: "load", Sub: sub, H: 1}, C10Op{Kind: "load", Sub: sub, H: 0})
	}
	if mode >= 8 && !sc.Store.InMemory { // scenario B (a shared-cache in-memory database locks whole tables: sequential use only)
		nt := rapid.IntRange(2, 4).Draw(rt, "nTasks")
		for t := 0; t < nt; t++ {
			k := rapid.IntRange(1, 5).Draw(rt, "nConc")
			var l []C10Op
			for i := 0; i < k; i++ {
				l = append(l, genC10Op(rt, []string{"append", "append", "read"}))
			}
			sc.Concurrent = append(sc.Concurrent, l)
		}
		if len(sc.Ops) > 8 {
			sc.Ops = sc.Ops[:8]
		}
	}
	// (with a small server chunk the oracle could not read the log back to resolve a lost acknowledgement)
	if sc.Store.Kind == "ds" && sc.Store.ChunkSize == 0 && rapid.IntRange(0, 3).Draw(rt, "netFaults") == 3 {
		sc.NetFaults = map[int]string{}
		k := rapid.IntRange(1, 2).Draw(rt, "nNetFaults")
		for i := 0; i < k; i++ {
			sc.NetFaults[rapid.IntRange(1, 40).Draw(rt, "faultReq")] = rapid.SampledFrom([]string{"lost-request", "lost-response"}).Draw(rt, "faultKind")
		}
	}
	sc.Tape = core.DrawTape(rt, 200)
	return sc
}

type c10Off struct {
	off  eventbus.Offset
	pos  int    // number of log events at or before this position
	prov string // append, event, next-limited, next-tail
}

type c10Model struct {
	log  []*eventbus.Event
	offs []c10Off
	byO  map[eventbus.Offset]int // offset -> index into offs
	subs map[string]eventbus.Offset
	appendOffs []eventbus.Offset
	seq        int
}

func (m *c10Model) note(off eventbus.Offset, pos int, prov string) {
	if off == eventbus.OffsetOldest {
		return
	}
	if _, ok := m.byO[off]; ok {
		return
	}
	m.byO[off] = len(m.offs)
	m.offs = append(m.offs, c10Off{off, pos, prov})
}

func jsonEqual(a, b []byte) bool {
	var x, y any
	da := json.NewDecoder(bytes.NewReader(a))
	da.UseNumber()
	db := json.NewDecoder(bytes.NewReader(b))
	db.UseNumber()
	if da.Decode(&x) != nil || db.Decode(&y) != nil {
		return false
	}
	return reflect.DeepEqual(x, y)
}

func (sc *C10Scenario) Execute(t *testing.T) *core.Outcome {
	out := &core.Outcome{}
	var rec core.Recorder
	kind := sc.Store.Kind
	viol := func(k, sig, f string, a ...any) { out.VS(k, kind+":"+sig, "["+sc.Store.String()+"] "+f, a...) }
	body := func() {
		env := newStoreEnv()
		defer env.Close()
		// a second, separately created store of the same kind must never show the first one's events
		ctx := context.Background()
		var otherStore eventbus.EventStore
		nOther := 0
		openOther := func() {
			ocfg := sc.Store
			ocfg.AltOpts = true
			other, err := env.openStore(ocfg, "other")
			if err != nil {
				out.HarnessErr = "open: " + err.Error()
				return
			}
			if _, err := other.Append(ctx, &eventbus.Event{Type: "other-store", Data: json.RawMessage(`{"x":1}`), Timestamp: time.Unix(5, 0).UTC()}); err != nil {
				out.HarnessErr = "append other: " + err.Error()
			}
			otherStore, nOther = other, 1
		}
		var opener *simrt.Task
		if sc.ConcOpen {
			// the two stores are created by two tasks at the same time
			opener = simrt.GoNamed("open-other", openOther)
		} else {
			openOther()
		}
		st, err := env.openStore(sc.Store, "main")
		simrt.Join(opener)
		if out.HarnessErr != "" {
			return
		}
		if err != nil {
			out.HarnessErr = "open: " + err.Error()
			return
		}
		var srv *dsServer
		if kind == "ds" {
			srv = env.servers["main"]
			for k, v := range sc.NetFaults {
				srv.Faults[srv.nReq+k] = v
			}
		}
		var subStore eventbus.SubscriptionStore
		if s, ok := st.(eventbus.SubscriptionStore); ok {
			subStore = s
		}
		streamer, _ := st.(eventbus.EventStoreStreamer)
		m := &c10Model{byO: map[eventbus.Offset]int{}, subs: map[string]eventbus.Offset{}}
		pick := func(i int) (eventbus.Offset, int, string) {
			if i < 0 || len(m.offs) == 0 {
				return eventbus.OffsetOldest, 0, "oldest"
			}
			o := m.offs[i%len(m.offs)]
			return o.off, o.pos, o.prov
		}
		checkEvents := func(what string, prov string, pos int, got []*eventbus.StoredEvent, wantN int) bool {
			want := m.log[pos:]
			if wantN >= 0 && wantN < len(want) {
				want = want[:wantN]
			}
			if len(got) != len(want) {
				sig := "wrong-count"
				if len(got) < len(want) {
					sig = "short"
					if sc.Store.ChunkSize > 0 {
						sig = "short-smallchunk"
					}
				}
				viol("read-mismatch", sig+"/resumed-from-"+prov, "%s from a %s offset at log position %d returned %d events, expected %d (log has %d)", what, prov, pos, len(got), len(want), len(m.log))
				return false
			}
			for i, g := range got {
				w := want[i]
				dataOK := bytes.Equal(g.Data, w.Data)
				if kind == "ds" {
					dataOK = jsonEqual(g.Data, w.Data)
				}
				if g.Type != w.Type || !dataOK {
					viol("read-mismatch", "content/resumed-from-"+prov, "%s from a %s offset at position %d: event %d is type=%q data=%s, expected type=%q data=%s (gap, repeat or corruption)", what, prov, pos, i, trunc(g.Type), trunc(string(g.Data)), trunc(w.Type), trunc(string(w.Data)))
					return false
				}
				if !g.Timestamp.Equal(w.Timestamp) { // same unique event (type and data match), different instant
					viol("timestamp-changed", "timestamp", "%s: event at position %d came back with timestamp %v, appended %v", what, pos+i, g.Timestamp, w.Timestamp)
					return false
				}
				m.note(g.Offset, pos+i+1, "event")
			}
			return true
		}
		resolveLostAck := func(ev *eventbus.Event) {
			// the append's acknowledgement was lost: the event is present or absent, nothing else may change
			var evs []*eventbus.StoredEvent
			var err error
			for try := 0; try < 4; try++ { // the read-back itself may hit the next injected fault
				if evs, _, err = st.Read(ctx, eventbus.OffsetOldest, 0); err == nil {
					break
				}
			}
			if err != nil {
				out.HarnessErr = "cannot read the log back after a lost acknowledgement: " + err.Error()
				return
			}
			if len(evs) == len(m.log)+1 && evs[len(evs)-1].Type == ev.Type && jsonEqual(evs[len(evs)-1].Data, ev.Data) {
				m.log = append(m.log, ev)
				out.Probe("lost-ack-append-was-applied")
			}
		}
		var stB eventbus.EventStore
		var closeB func()
		if sc.TwoHandles {
			b, err := env.openStore(sc.Store, "main")
			if err != nil {
				out.HarnessErr = "open second handle: " + err.Error()
				return
			}
			stB = b
			closeB = func() {
				if c, ok := b.(interface{ Close() error }); ok && stB != nil {
					c.Close()
				}
				stB = nil
			}
		}
		runOp := func(op C10Op) {
			st, subStore, streamer := st, subStore, streamer
			if op.H == 1 && stB != nil {
				st = stB
				subStore, _ = stB.(eventbus.SubscriptionStore)
				streamer, _ = stB.(eventbus.EventStoreStreamer)
			}
			if op.Kind == "close-b" {
				if closeB != nil {
					closeB()
				}
				return
			}
			switch op.Kind {
			case "append-other":
				// the separately created store keeps being written to while this one is in use
				nOther++
				if _, err := otherStore.Append(ctx, &eventbus.Event{Type: "other-store", Data: json.RawMessage(fmt.Sprintf(`{"x":%d}`, nOther)), Timestamp: time.Unix(5, 0).UTC()}); err != nil {
					out.HarnessErr = "append other: " + err.Error()
				}
				return
			case "append", "append-dead":
				m.seq++
				ev := op.Ev.event(m.seq)
				rec.Add("append", len(m.log), 0, "")
				actx := ctx
				if op.Kind == "append-dead" {
					// an Append given a context that is already cancelled: it may refuse (then nothing of it may ever
					// show up, and the log stays a gap-free, resumable sequence) or it may not look at the context
					c, cancel := context.WithCancel(ctx)
					cancel()
					actx = c
				}
				off, err := st.Append(actx, ev)
				if err != nil && op.Kind == "append-dead" {
					out.Fault("append-with-cancelled-context-refused")
					return
				}
				if err != nil {
					if srv != nil && (srv.Fired["lost-request"]+srv.Fired["lost-response"]) > 0 {
						resolveLostAck(ev)
						return
					}
					viol("append-failed", "append-error", "Append of a valid event (type %q, data %s, time %v) failed: %v", trunc(ev.Type), trunc(string(ev.Data)), ev.Timestamp, err)
					return
				}
				if _, dup := m.byO[off]; dup && off != "" {
					viol("offset-not-unique", "offset-unique", "Append returned offset %q which was already handed out", off)
				}
				if n := len(m.appendOffs); n > 0 && !offLess(m.appendOffs[n-1], off) {
					viol("offset-order", "offset-order", "Append #%d returned offset %q, not greater than the previous %q under the documented lexicographic comparison", len(m.log)+1, off, m.appendOffs[n-1])
				}
				m.appendOffs = append(m.appendOffs, off)
				m.log = append(m.log, ev)
				m.note(off, len(m.log), "append")
			case "read":
				from, pos, prov := pick(op.From)
				rec.Add("read", pos, op.Limit, "")
				evs, next, err := st.Read(ctx, from, op.Limit)
				if err != nil {
					if srv != nil && srv.Fired["lost-request"]+srv.Fired["lost-response"] > 0 {
						return
					}
					viol("read-failed", "read-error", "Read(%q, %d) failed: %v", from, op.Limit, err)
					return
				}
				wantN := -1
				if op.Limit > 0 {
					wantN = op.Limit
				}
				if checkEvents(fmt.Sprintf("Read(limit %d)", op.Limit), prov, pos, evs, wantN) {
					np := "next-tail"
					if op.Limit > 0 && len(evs) == op.Limit {
						np = "next-limited"
					}
					m.note(next, pos+len(evs), np)
					// the start-of-log offset is a valid next offset only when nothing lies before the resume point:
					// a reader that polls at the tail must not be thrown back to the beginning
					if next == eventbus.OffsetOldest && pos+len(evs) > 0 {
						viol("next-offset-regressed", "next-offset", "Read(%q, %d) from log position %d returned %d events and the start-of-log offset as next offset: resuming from it repeats the first %d events", from, op.Limit, pos, len(evs), pos+len(evs))
					}
				}
			case "stream":
				if streamer == nil {
					return
				}
				from, pos, prov := pick(op.From)
				rec.Add("stream", pos, op.Stop, "")
				var got []*eventbus.StoredEvent
				var serr error
				for ev, err := range streamer.ReadStream(ctx, from) {
					if err != nil {
						serr = err
						break
					}
					got = append(got, ev)
					if op.Stop > 0 && len(got) >= op.Stop {
						break
					}
				}
				if serr != nil {
					viol("read-failed", "stream-error", "ReadStream(%q) failed: %v", from, serr)
					return
				}
				wantN := -1
				if op.Stop > 0 {
					wantN = op.Stop
				}
				checkEvents("ReadStream", prov, pos, got, wantN)
			case "save":
				if subStore == nil {
					return
				}
				from, _, _ := pick(op.From)
				// (OffsetOldest is an offset the store returns - LoadOffset for a subscription that never saved -
				// and saving it sets the subscription back to the start of the log)
				id := c10SubID(op.Sub)
				if err := subStore.SaveOffset(ctx, id, from); err != nil {
					viol("save-failed", "save-error", "SaveOffset(%s, %q) failed: %v", id, from, err)
					return
				}
				m.subs[id] = from
			case "load":
				if subStore == nil {
					return
				}
				id := c10SubID(op.Sub)
				got, err := subStore.LoadOffset(ctx, id)
				if err != nil {
					viol("load-failed", "load-error", "LoadOffset(%s) failed: %v", id, err)
					return
				}
				if m.subs[id] == eventbus.OffsetOldest && got != eventbus.OffsetOldest {
					// set back to the start (or never saved): the store may name the start differently, as long as a
					// read resumed from it begins with the first event of the log
					evs, _, err := st.Read(ctx, got, 1)
					switch {
					case err != nil:
						viol("saved-offset-wrong", "saved-offset", "LoadOffset(%s) = %q (saved: the start of the log); Read from it failed: %v", id, got, err)
					case len(m.log) > 0 && (len(evs) == 0 || !jsonEqual(evs[0].Data, m.log[0].Data)):
						viol("saved-offset-wrong", "saved-offset", "LoadOffset(%s) = %q although the subscription was last set to the start of the log: a read resumed from it does not begin with the first event", id, got)
					}
				} else if got != m.subs[id] {
					viol("saved-offset-wrong", "saved-offset", "LoadOffset(%s) = %q, last saved %q (oldest if none)", id, got, m.subs[id])
				}
			}
		}
		for _, op := range sc.Ops {
			runOp(op)
			if out.HarnessErr != "" {
				return
			}
		}
		// durable-streams with a chunk smaller than the log cannot return "all events" in one Read
		// (known finding ds:short-smallchunk), so its concurrent reads are not comparable with the model
		if len(sc.Concurrent) > 0 && len(sc.NetFaults) == 0 && !(sc.Store.Kind == "ds" && sc.Store.ChunkSize > 0) {
			sc.concurrentPhase(out, st, m, &rec)
		}
		// isolation, and: offsets increase with append order over the whole log (also after concurrent appends)
		evs, _, err := st.Read(ctx, eventbus.OffsetOldest, 0)
		if err == nil {
			for i := 1; i < len(evs) && !(kind == "ds"); i++ {
				if !offLess(evs[i-1].Offset, evs[i].Offset) {
					viol("offset-order", "offset-order", "the log holds offset %q before %q: offsets do not increase with append order", evs[i-1].Offset, evs[i].Offset)
					break
				}
			}
			for _, e := range evs {
				if e.Type == "other-store" {
					viol("stores-not-isolated", "isolation", "an event appended to a separately created store shows up in this one")
				}
			}
		}
		// ... and the other store holds its own events, all of them, in order, whatever was written here meanwhile
		if oevs, _, oerr := otherStore.Read(ctx, eventbus.OffsetOldest, 0); oerr == nil && kind != "ds" {
			ok := len(oevs) == nOther
			for i, e := range oevs {
				ok = ok && e.Type == "other-store" && jsonEqual(e.Data, []byte(fmt.Sprintf(`{"x":%d}`, i+1)))
			}
			if !ok {
				viol("stores-not-isolated", "isolation", "the separately created store, which was given %d events of its own, reads back %d events; something written to this store changed it", nOther, len(oevs))
			}
		}
		if srv != nil {
			for k, v := range srv.Fired {
				for i := 0; i < v; i++ {
					out.Fault(k)
				}
			}
		}
		if len(m.log) >= 10 {
			out.Probe("log-past-10-entries")
		}
		if len(m.log) >= 100 {
			out.Probe("log-past-100-entries")
		}
	}
	rep, herr := core.Sim(t, &sc.Base, nil, body)
	out.Rep = rep
	if out.HarnessErr == "" {
		out.HarnessErr = herr
		if call, hung := storeHang(rep); hung {
			out.HarnessErr = ""
			out.V("store-call-never-returned", "a call into the store did not return although nothing else was runnable and a minute of simulated time had passed: %s", call)
			return out
		}
	}
	if rep == nil || out.HarnessErr != "" {
		return out
	}
	out.LogHash = rec.Hash()
	out.Nontrivial = len(sc.Ops) > 2
	if rep.BudgetExceeded {
		out.HarnessErr = "step budget exceeded"
	}
	for _, p := range rep.Panics {
		out.V("escaped-panic", "%s: %s\n%s", p.Task, p.Value, p.Stack)
	}
	if rep.Deadlock {
		out.V("deadlock", "%s", rep.DeadlockInfo)
	}
	out.Summary = fmt.Sprintf("store %s, %d ops, %d concurrent tasks", sc.Store, len(sc.Ops), len(sc.Concurrent))
	return out
}

func trunc(s string) string {
	if len(s) > 60 {
		return s[:60] + "…"
	}
	return s
}

// ---- scenario B: concurrent appends/reads, checked for linearizability against a sequential log

type c10In struct {
	Append bool
	ID     int
	From   eventbus.Offset
	Limit  int
}
type c10Out struct {
	Off eventbus.Offset
	IDs string
	Err bool
}
type c10State struct {
	ids  []int
	offs []eventbus.Offset
}

func (sc *C10Scenario) concurrentPhase(out *core.Outcome, st eventbus.EventStore, m *c10Model, rec *core.Recorder) {
	ctx := context.Background()
	base := len(m.log)
	var ops []porcupine.Operation
	nextID := 1000
	var tasks []*simrt.Task
	for ti, l := range sc.Concurrent {
		ti, l := ti, l
		ids := make([]int, len(l))
		for i := range l {
			nextID++
			ids[i] = nextID
		}
		tasks = append(tasks, simrt.GoNamed(fmt.Sprintf("store-client%d", ti), func() {
			for i, op := range l {
				switch op.Kind {
				case "append":
					ev := op.Ev.event(ids[i])
					ev.Type = fmt.Sprintf("c-%d", ids[i])
					call := rec.Add("c-append", ids[i], 0, "")
					off, err := st.Append(ctx, ev)
					if err != nil {
						out.VS("append-failed", sc.Store.Kind+":append-error", "[%s] concurrent Append failed: %v", sc.Store, err)
					}
					ret := rec.Add("c-append-ret", ids[i], 0, string(off))
					ops = append(ops, porcupine.Operation{ClientId: ti, Input: c10In{Append: true, ID: ids[i]}, Call: call, Output: c10Out{Off: off, Err: err != nil}, Return: ret})
				case "read":
					from := eventbus.OffsetOldest
					if n := len(m.appendOffs); n > 0 && op.From >= 0 {
						from = m.appendOffs[op.From%n]
					}
					call := rec.Add("c-read", 0, op.Limit, string(from))
					evs, _, err := st.Read(ctx, from, op.Limit)
					if err != nil {
						out.VS("read-failed", sc.Store.Kind+":read-error", "[%s] concurrent Read(%q, %d) failed: %v", sc.Store, from, op.Limit, err)
					}
					var got []string
					for _, e := range evs {
						if strings.HasPrefix(e.Type, "c-") {
							got = append(got, e.Type[2:])
						}
					}
					ret := rec.Add("c-read-ret", len(evs), 0, "")
					ops = append(ops, porcupine.Operation{ClientId: ti, Input: c10In{From: from, Limit: op.Limit}, Call: call, Output: c10Out{IDs: strings.Join(got, ","), Err: err != nil}, Return: ret})
				}
			}
		}))
	}
	simrt.Join(tasks...)
	if len(out.Violations) > 0 {
		return
	}
	// every Append returned an offset of its own, whatever the interleaving
	seenOff := map[eventbus.Offset]int{}
	for _, o := range ops {
		if in := o.Input.(c10In); in.Append {
			off := o.Output.(c10Out).Off
			if prev, dup := seenOff[off]; dup {
				out.VS("offset-not-unique", sc.Store.Kind+":offset-unique", "[%s] two concurrent Appends (events %d and %d) were both given offset %q", sc.Store, prev, in.ID, off)
				return
			}
			seenOff[off] = in.ID
		}
	}
	// Reads are projected onto the events of this phase; a read resumed from a pre-phase offset sees all of them.
	model := porcupine.Model{
		Init: func() any { return c10State{} },
		Step: func(state, input, output any) (bool, any) {
			s := state.(c10State)
			in := input.(c10In)
			o := output.(c10Out)
			if o.Err {
				return false, s
			}
			if in.Append {
				ns := c10State{ids: append(append([]int{}, s.ids...), in.ID), offs: append(append([]eventbus.Offset{}, s.offs...), o.Off)}
				return true, ns
			}
			var want []string
			for _, id := range s.ids {
				want = append(want, fmt.Sprint(id))
			}
			if in.Limit > 0 {
				// the limit counts pre-phase events after `from` too; only an upper bound is checkable here
				got := strings.Split(o.IDs, ",")
				if o.IDs == "" {
					got = nil
				}
				if len(got) > len(want) {
					return false, s
				}
				for i := range got {
					if got[i] != want[i] {
						return false, s
					}
				}
				return true, s
			}
			return strings.Join(want, ",") == o.IDs, s
		},
		Equal: func(a, b any) bool { return reflect.DeepEqual(a, b) },
	}
	res := porcupine.CheckOperationsTimeout(model, ops, 20*time.Second)
	switch res {
	case porcupine.Illegal:
		out.VS("not-linearizable", sc.Store.Kind+":linearizability", "[%s] the concurrent Append/Read history (%d operations, %d tasks) is not linearizable with respect to a sequential append-only log", sc.Store, len(ops), len(sc.Concurrent))
	case porcupine.Unknown:
		out.Probe("porcupine-unknown")
	default:
		out.Probe("porcupine-ok")
	}
	// bring the sequential model up to date with what the phase appended (in log order)
	evs, _, err := st.Read(ctx, eventbus.OffsetOldest, 0)
	if err == nil && len(evs) >= base {
		for _, e := range evs[base:] {
			m.log = append(m.log, &eventbus.Event{Type: e.Type, Data: e.Data, Timestamp: e.Timestamp})
		}
	}
	// once the phase is over, a read resumed from the offset any of its Appends returned yields exactly the
	// events that follow it in the log (no stale "nothing new" left behind by the racing appends)
	if err == nil && sc.Store.Kind != "ds" {
		posOf := map[eventbus.Offset]int{}
		for i, e := range evs {
			posOf[e.Offset] = i + 1
		}
		for _, o := range ops {
			in := o.Input.(c10In)
			if !in.Append || o.Output.(c10Out).Err {
				continue
			}
			off := o.Output.(c10Out).Off
			p, ok := posOf[off]
			if !ok {
				out.VS("offset-not-in-log", sc.Store.Kind+":offset-unknown", "[%s] concurrent Append of event %d returned offset %q, which no event of the log carries", sc.Store, in.ID, off)
				continue
			}
			rest, _, rerr := st.Read(ctx, off, 0)
			if rerr != nil || len(rest) != len(evs)-p {
				out.VS("read-mismatch", sc.Store.Kind+":short/resumed-from-append-after-race", "[%s] after %d tasks appended concurrently, Read resumed from the offset %q that the Append of event %d returned (log position %d of %d) yields %d events, expected %d (%v)", sc.Store, len(sc.Concurrent), off, in.ID, p, len(evs), len(rest), len(evs)-p, rerr)
				break
			}
		}
	}
}

// c10Long: explicitly constructed long histories - logs that pass the sizes where internal pages, chunks and
// caps tend to sit (1024, 1025, 2048 ...) - read back in chains with limits around those sizes, streamed
// from the start and from the middle, with offsets resumed from every provenance.
func c10Long(tier string, yield func(core.Scenario)) string {
	stores := []StoreCfg{{Kind: "mem"}, {Kind: "sqlite"}}
	if tier == "thorough" {
		stores = append(stores, StoreCfg{Kind: "sqlite", StreamBatch: 100}, StoreCfg{Kind: "sqlite", InMemory: true})
	}
	n := 0
	for _, st := range stores {
		for _, size := range []int{1025, 2100} {
			sc := &C10Scenario{Store: st}
			ev := func(i int) *C10Ev {
				return &C10Ev{Type: "T", Data: fmt.Sprintf(`{"k":%d}`, i), Sec: int64(1700000000 + i), Zone: 0}
			}
			for i := 0; i < size; i++ {
				sc.Ops = append(sc.Ops, C10Op{Kind: "append", Ev: ev(i)})
			}
			for _, lim := range []int{0, 1000, 1023, 1024, 1025, 2048} {
				sc.Ops = append(sc.Ops, C10Op{Kind: "read", From: -1, Limit: lim})
			}
			// resume points: the offsets returned so far sit in the model's list (appends first, then next offsets)
			for _, from := range []int{0, 1, 1022, 1023, 1024, size - 2, size - 1, size, size + 1, size + 3} {
				sc.Ops = append(sc.Ops, C10Op{Kind: "read", From: from, Limit: 0}, C10Op{Kind: "stream", From: from}, C10Op{Kind: "read", From: from, Limit: 1024})
			}
			sc.Ops = append(sc.Ops, C10Op{Kind: "stream", From: -1}, C10Op{Kind: "stream", From: -1, Stop: 1030})
			for i := 0; i < 3; i++ {
				sc.Ops = append(sc.Ops, C10Op{Kind: "append", Ev: ev(size + i)}, C10Op{Kind: "read", From: size - 1, Limit: 0}, C10Op{Kind: "stream", From: 1024})
			}
			n++
			yield(sc)
		}
	}
	return fmt.Sprintf("%d explicitly constructed long histories (1025 and 2100 appends, then reads with limits 0/1000/1023/1024/1025/2048, reads and streams resumed around positions 1023-1025 and the tail, more appends)", n)
}

var propC10 = &core.Property{ID: "C10", Gen: genC10, New: func() core.Scenario { return &C10Scenario{} }, Explicit: c10Long}

func TestC10(t *testing.T) { core.RunProperty(t, propC10) }
