//go:build !race

package props

const raceBuild = false
