package props

import (
	"context"
	"encoding/json"
	"fmt"
	"os"
	"reflect"
	"testing"
	"time"

	"github.com/anishathalye/porcupine"
	eventbus "github.com/jilio/ebu"
	"pgregory.net/rapid"

	"ebusim/core"
	"simshim/simrt"
)

// C16 — upcaster registration can never create a cycle and upcasting always terminates.

type C16Op struct {
	Kind string `json:"kind"` // reg, clear, cleartype
	A    int    `json:"a"`    // name index; -1 = empty name
	B    int    `json:"b"`
	Nil  bool   `json:"nil,omitempty"` // nil function
}

// C16Up is a raw upcaster whose returned type is drawn independently of its declared target.
type C16Up struct {
	From    int `json:"from"`
	To      int `json:"to"`
	Returns int `json:"returns"` // name index actually returned (may differ from To; may be unknown = 9)
	Fails   bool `json:"fails,omitempty"` // the upcaster returns an error (the walk's failure path, error handler included)
}

type C16Scenario struct {
	core.Base
	Names int       `json:"names"`
	Seq   []C16Op   `json:"seq,omitempty"`   // A: sequential registrations
	Tasks [][]C16Op `json:"tasks,omitempty"` // B: racing registrations
	Ups   []C16Up   `json:"ups,omitempty"`   // C: termination
	Log   []int     `json:"log,omitempty"`   // C: stored event types
	ViaSubscribe bool `json:"via_subscribe,omitempty"`
	// RegDuring: another task registers an unrelated upcaster while the upcasting replay runs
	RegDuring bool `json:"reg_during,omitempty"`
	// ByOption: the registrations (of A, or the raw upcasters of C) are given to New as WithUpcast options,
	// in order; a refused one is dropped silently, clears cannot be expressed and are skipped
	ByOption bool `json:"by_option,omitempty"`
	// TypedFirst (C): a typed upcaster (RegisterUpcast[UA, UB]) is registered before the raw ones and its source
	// type is cleared again (ClearUpcastsForType) after them - bookkeeping that distinguishes typed from raw
	// upcasters must not be thrown off by it
	TypedFirst bool `json:"typed_first,omitempty"`
}

// Type names are arbitrary non-empty strings; the pool includes names containing a separator-like
// character, chosen so that different (source, target) pairs concatenate to the same string.
var c16Names = []string{"a", "b:c", "a:b", "c", "b", "order.created/v2", "T6", "T7", "T8", "unknown"}

func c16Name(i int) string {
	if i < 0 {
		return ""
	}
	if i >= 1000 {
		return fmt.Sprintf("L%d", i) // the large graphs of c16Large
	}
	return c16Names[i%len(c16Names)]
}

func genC16Op(rt *rapid.T, names int) C16Op {
	k := rapid.SampledFrom([]string{"reg", "reg", "reg", "reg", "reg", "clear", "cleartype"}).Draw(rt, "kind")
	op := C16Op{Kind: k, A: rapid.IntRange(0, names-1).Draw(rt, "a"), B: rapid.IntRange(0, names-1).Draw(rt, "b")}
	if k == "reg" {
		switch rapid.IntRange(0, 19).Draw(rt, "invalid") {
		case 0:
			op.A = -1
		case 1:
			op.B = -1
		case 2:
			op.Nil = true
		}
	}
	return op
}

func genC16(rt *rapid.T) core.Scenario {
	sc := &C16Scenario{Names: rapid.IntRange(2, 6).Draw(rt, "names")}
	switch rapid.IntRange(0, 2).Draw(rt, "mode") {
	case 0:
		n := rapid.IntRange(1, 14).Draw(rt, "nSeq")
		for i := 0; i < n; i++ {
			sc.Seq = append(sc.Seq, genC16Op(rt, sc.Names))
		}
		sc.ByOption = rapid.IntRange(0, 2).Draw(rt, "seqByOption") == 2
	case 1:
		n := rapid.IntRange(0, 4).Draw(rt, "nSeq")
		for i := 0; i < n; i++ {
			sc.Seq = append(sc.Seq, genC16Op(rt, sc.Names))
		}
		nt := rapid.IntRange(2, 4).Draw(rt, "nTasks")
		for t := 0; t < nt; t++ {
			k := rapid.IntRange(1, 3).Draw(rt, "nOps")
			var l []C16Op
			for i := 0; i < k; i++ {
				l = append(l, genC16Op(rt, sc.Names))
			}
			sc.Tasks = append(sc.Tasks, l)
		}
	default:
		n := rapid.IntRange(1, 5).Draw(rt, "nUps")
		for i := 0; i < n; i++ {
			u := C16Up{From: rapid.IntRange(0, sc.Names-1).Draw(rt, "from"), To: rapid.IntRange(0, sc.Names-1).Draw(rt, "to")}
			u.Returns = u.To
			if rapid.IntRange(0, 2).Draw(rt, "lies") > 0 {
				u.Returns = rapid.SampledFrom([]int{u.From, 0, 1, 2, 3, 9}).Draw(rt, "returns")
				if len(sc.Ups) > 0 && rapid.Bool().Draw(rt, "returnsAnotherSource") {
					// lands on the source of an upcaster registered earlier: two liars can close a loop that the
					// declared graph does not contain
					u.Returns = sc.Ups[rapid.IntRange(0, len(sc.Ups)-1).Draw(rt, "whichSource")].From
				}
			}
			u.Fails = rapid.IntRange(0, 3).Draw(rt, "fails") == 3
			sc.Ups = append(sc.Ups, u)
		}
		nl := rapid.IntRange(1, 3).Draw(rt, "nLog")
		for i := 0; i < nl; i++ {
			sc.Log = append(sc.Log, rapid.IntRange(0, sc.Names-1).Draw(rt, "logType"))
		}
		sc.ViaSubscribe = rapid.IntRange(0, 2).Draw(rt, "viaSubscribe") == 2
		sc.RegDuring = rapid.IntRange(0, 2).Draw(rt, "regDuring") == 2
		sc.ByOption = rapid.IntRange(0, 2).Draw(rt, "byOption") == 2
		sc.TypedFirst = !sc.ByOption && rapid.IntRange(0, 2).Draw(rt, "typedFirst") == 2
	}
	sc.Tape = core.DrawTape(rt, 200)
	return sc
}

// ---- sequential graph model

type c16Graph map[string][]string

func (g c16Graph) reaches(from, to string) bool {
	seen := map[string]bool{}
	var dfs func(string) bool
	dfs = func(x string) bool {
		if x == to {
			return true
		}
		if seen[x] {
			return false
		}
		seen[x] = true
		for _, y := range g[x] {
			if dfs(y) {
				return true
			}
		}
		return false
	}
	return dfs(from)
}

func (g c16Graph) clone() c16Graph {
	n := c16Graph{}
	for k, v := range g {
		n[k] = append([]string{}, v...)
	}
	return n
}

func (g c16Graph) acyclic() bool {
	for a, outs := range g {
		for _, b := range outs {
			if g.reaches(b, a) {
				return false
			}
		}
	}
	return true
}

// apply returns whether a registration must be accepted, and the new graph.
func (g c16Graph) apply(op C16Op) (accept bool, ng c16Graph) {
	ng = g
	switch op.Kind {
	case "reg":
		a, b := c16Name(op.A), c16Name(op.B)
		if a == "" || b == "" || a == b || op.Nil || g.reaches(b, a) {
			return false, g
		}
		ng = g.clone()
		ng[a] = append(ng[a], b)
		return true, ng
	case "clear":
		return true, c16Graph{}
	case "cleartype":
		ng = g.clone()
		delete(ng, c16Name(op.A))
		return true, ng
	}
	return true, g
}

func c16Exec(bus *eventbus.EventBus, op C16Op) bool {
	switch op.Kind {
	case "reg":
		var f eventbus.UpcastFunc
		if !op.Nil {
			to := c16Name(op.B)
			f = func(d json.RawMessage) (json.RawMessage, string, error) { return d, to, nil }
		}
		return eventbus.RegisterUpcastFunc(bus, c16Name(op.A), c16Name(op.B), f) == nil
	case "clear":
		bus.ClearUpcasts()
	case "cleartype":
		bus.ClearUpcastsForType(c16Name(op.A))
	}
	return true
}

func (sc *C16Scenario) Execute(t *testing.T) *core.Outcome {
	out := &core.Outcome{}
	var rec core.Recorder
	finished := false
	delivered := 0
	body := func() {
		store := eventbus.NewMemoryStore()
		var upErrs int
		opts := []eventbus.Option{eventbus.WithStore(store), eventbus.WithUpcastErrorHandler(func(string, json.RawMessage, error) { upErrs++ })}
		mkUp := func(u C16Up) eventbus.UpcastFunc {
			ret := c16Name(u.Returns)
			return func(d json.RawMessage) (json.RawMessage, string, error) {
				simrt.Yield(siteUpcaster) // every application costs a scheduler step: a spinning apply exhausts the budget
				if u.Fails {
					return nil, "", errUpcastInjected
				}
				return d, ret, nil
			}
		}
		if sc.ByOption {
			for _, u := range sc.Ups {
				opts = append(opts, eventbus.WithUpcast(c16Name(u.From), c16Name(u.To), mkUp(u)))
			}
		}
		g := c16Graph{}
		seq := sc.Seq
		if sc.ByOption && len(sc.Ups) == 0 {
			for _, op := range sc.Seq {
				if op.Kind != "reg" {
					continue
				}
				var f eventbus.UpcastFunc
				if !op.Nil {
					to := c16Name(op.B)
					f = func(d json.RawMessage) (json.RawMessage, string, error) { return d, to, nil }
				}
				opts = append(opts, eventbus.WithUpcast(c16Name(op.A), c16Name(op.B), f))
				_, g = g.apply(op)
			}
			seq = nil
		}
		bus := eventbus.New(opts...)
		for i, op := range seq {
			want, ng := g.apply(op)
			got := c16Exec(bus, op)
			rec.Add("seq-"+op.Kind, op.A, op.B, fmt.Sprint(got))
			if got != want {
				out.V("registration-decision", "step %d: RegisterUpcastFunc(%q -> %q, nil func=%v) accepted=%v, expected %v (target reaches source in the registered graph: %v)", i, c16Name(op.A), c16Name(op.B), op.Nil, got, want, g.reaches(c16Name(op.B), c16Name(op.A)))
				return
			}
			g = ng
		}
		if len(sc.Tasks) == 0 && len(sc.Ups) == 0 {
			// what the registry really holds, seen through an upcasting replay of one event per name: every
			// event must come out at the type the model's graph leads to (first-registered upcaster per type)
			ctx := context.Background()
			for i := 0; i < sc.Names; i++ {
				store.Append(ctx, &eventbus.Event{Type: c16Name(i), Data: json.RawMessage(`{}`), Timestamp: time.Unix(int64(i), 0)})
			}
			var got []string
			err := bus.ReplayWithUpcast(ctx, eventbus.OffsetOldest, func(e *eventbus.StoredEvent) error { got = append(got, e.Type); return nil })
			var want []string
			for i := 0; i < sc.Names; i++ {
				cur := c16Name(i)
				for steps := 0; steps < 100 && len(g[cur]) > 0; steps++ {
					cur = g[cur][0]
				}
				want = append(want, cur)
			}
			if err != nil || !reflect.DeepEqual(got, want) {
				out.V("registry-content", "after the registrations (given as WithUpcast options: %v), replaying one event of each type %v with upcasting yields types %v (error %v, upcast errors %d); the acyclic graph of accepted registrations leads to %v", sc.ByOption, c16Names[:sc.Names], got, err, upErrs, want)
			}
		}
		if len(sc.Tasks) > 0 {
			var ops []porcupine.Operation
			var tasks []*simrt.Task
			for ti, l := range sc.Tasks {
				ti, l := ti, l
				tasks = append(tasks, simrt.GoNamed(fmt.Sprintf("registrar%d", ti), func() {
					for _, op := range l {
						call := rec.Add("call-"+op.Kind, op.A, op.B, "")
						ok := c16Exec(bus, op)
						ret := rec.Add("ret-"+op.Kind, op.A, op.B, fmt.Sprint(ok))
						ops = append(ops, porcupine.Operation{ClientId: ti, Input: op, Call: call, Output: ok, Return: ret})
					}
				}))
			}
			simrt.Join(tasks...)
			init := g
			model := porcupine.Model{
				Init: func() any { return init },
				Step: func(state, input, output any) (bool, any) {
					want, ng := state.(c16Graph).apply(input.(C16Op))
					if input.(C16Op).Kind != "reg" {
						return true, ng
					}
					return want == output.(bool), ng
				},
				Equal: func(a, b any) bool { return reflect.DeepEqual(a, b) },
			}
			switch porcupine.CheckOperationsTimeout(model, ops, 20*time.Second) {
			case porcupine.Illegal:
				out.V("registrations-not-linearizable", "the results of %d concurrent registrations/clears cannot be explained by any sequential order over an acyclic-by-construction registry (a cycle was admitted or a legal edge refused)", len(ops))
			case porcupine.Unknown:
				out.Probe("porcupine-unknown")
			default:
				out.Probe("porcupine-ok")
			}
		}
		if len(sc.Ups) > 0 {
			ctx := context.Background()
			accepted := 0
			if sc.TypedFirst {
				eventbus.RegisterUpcast(bus, func(a UA) UB { return upAB(a) })
			}
			for _, u := range sc.Ups {
				if sc.ByOption {
					accepted++ // unobservable: the option drops a refused registration silently
				} else if eventbus.RegisterUpcastFunc(bus, c16Name(u.From), c16Name(u.To), mkUp(u)) == nil {
					accepted++
				}
			}
			if sc.TypedFirst {
				bus.ClearUpcastsForType(nameUA)
			}
			if accepted > 0 {
				out.Fault("raw-upcaster-registered")
			}
			for i, ty := range sc.Log {
				store.Append(ctx, &eventbus.Event{Type: c16Name(ty), Data: json.RawMessage(fmt.Sprintf(`{"i":%d}`, i)), Timestamp: time.Unix(int64(i), 0)})
			}
			var registrar *simrt.Task
			if sc.RegDuring {
				registrar = simrt.GoNamed("registrar", func() {
					eventbus.RegisterUpcastFunc(bus, "T7", "T8", func(d json.RawMessage) (json.RawMessage, string, error) { return d, "T8", nil })
				})
			}
			defer simrt.Join(registrar)
			if sc.ViaSubscribe {
				eventbus.SubscribeWithReplay(ctx, bus, "sub", func(e E00) { delivered++ })
			} else {
				bus.ReplayWithUpcast(ctx, eventbus.OffsetOldest, func(e *eventbus.StoredEvent) error { delivered++; return nil })
			}
		}
		finished = true
	}
	if sc.MaxSteps == 0 {
		sc.MaxSteps = 400 + 200*len(sc.Ups)
	}
	rep, herr := core.Sim(t, &sc.Base, nil, body)
	out.Rep = rep
	out.HarnessErr = herr
	if rep == nil {
		return out
	}
	out.LogHash = rec.Hash()
	out.Nontrivial = len(sc.Seq)+len(sc.Tasks)+len(sc.Ups) > 1
	for _, p := range rep.Panics {
		out.V("escaped-panic", "%s: %s\n%s", p.Task, p.Value, p.Stack)
	}
	if rep.Deadlock {
		out.V("deadlock", "%s", rep.DeadlockInfo)
	}
	if rep.BudgetExceeded {
		if len(sc.Ups) > 0 {
			out.V("upcasting-does-not-terminate", "applying upcasts did not finish within %d scheduler steps (%d registered upcasters, %d stored events): the chain walk loops", sc.MaxSteps, len(sc.Ups), len(sc.Log))
		} else {
			out.HarnessErr = "step budget exceeded"
		}
	} else if !finished && len(out.Violations) == 0 {
		out.HarnessErr = "scenario did not finish"
	}
	out.Summary = fmt.Sprintf("%d names, %d sequential ops, %d racing tasks, %d raw upcasters", sc.Names, len(sc.Seq), len(sc.Tasks), len(sc.Ups))
	return out
}

var propC16 = &core.Property{ID: "C16", Gen: genC16, New: func() core.Scenario { return &C16Scenario{} }}

func TestC16(t *testing.T) {
	if os.Getenv("VERIF_REPLAY") == "" {
		c16Exhaustive(t)
	}
	core.RunProperty(t, propC16)
}

// c16Exhaustive enumerates every sequence of registrations/clears up to a bound over 3 names
// (plus the invalid inputs) against the graph model. No scheduling is involved, so it runs
// outside the simulator. Only worker 0 does it; the bound grows in the thorough tier.
// c16Large: registries far larger than any bound an implementation might put on its cycle search. A chain of
// 1 200 types whose last type is then pointed back at the first, and a hub with 1 200 targets one of which is
// led back to the hub through one more type: both closing registrations must be refused, everything before
// them accepted (checked against the reachability model, registration by registration).
func c16Large(t *testing.T) int {
	const n = 1200
	chain := &C16Scenario{Names: 2}
	for i := 0; i < n; i++ {
		chain.Seq = append(chain.Seq, C16Op{Kind: "reg", A: 1000 + i, B: 1001 + i})
	}
	chain.Seq = append(chain.Seq, C16Op{Kind: "reg", A: 1000 + n, B: 1000}, C16Op{Kind: "reg", A: 1000 + n, B: 5000})
	hub := &C16Scenario{Names: 2}
	for i := 0; i < n; i++ {
		hub.Seq = append(hub.Seq, C16Op{Kind: "reg", A: 9000, B: 2000 + i})
	}
	hub.Seq = append(hub.Seq, C16Op{Kind: "reg", A: 2000 + n - 1, B: 9001}, C16Op{Kind: "reg", A: 9001, B: 9000}, C16Op{Kind: "reg", A: 9001, B: 9002})
	for _, sc := range []*C16Scenario{chain, hub} {
		sc.MaxSteps = 200000
		if out := sc.Execute(t); len(out.Violations) > 0 || out.HarnessErr != "" {
			if out.HarnessErr != "" {
				fmt.Printf("HARNESS-ERROR: large registry: %s\n", out.HarnessErr)
				os.Exit(2)
			}
			core.EmitViolation(propC16, sc, out)
		}
	}
	return 2
}

func c16Exhaustive(t *testing.T) {
	if w := os.Getenv("VERIF_WORKER"); w != "" && w != "0" {
		return
	}
	maxLen := 4
	if os.Getenv("VERIF_TIER") == "thorough" {
		maxLen = 5
	}
	var alphabet []C16Op
	for a := -1; a < 3; a++ {
		for b := -1; b < 3; b++ {
			if a == -1 && b == -1 {
				continue
			}
			alphabet = append(alphabet, C16Op{Kind: "reg", A: a, B: b})
		}
	}
	alphabet = append(alphabet, C16Op{Kind: "reg", A: 0, B: 1, Nil: true}, C16Op{Kind: "clear"},
		C16Op{Kind: "cleartype", A: 0}, C16Op{Kind: "cleartype", A: 1}, C16Op{Kind: "cleartype", A: 2})
	count := 0
	seq := make([]C16Op, 0, maxLen)
	var run func()
	run = func() {
		bus := eventbus.New()
		g := c16Graph{}
		for i, op := range seq {
			want, ng := g.apply(op)
			if got := c16Exec(bus, op); got != want {
				_ = got
				fsc := &C16Scenario{Names: 3, Seq: append([]C16Op{}, seq[:i+1]...)}
				core.EmitViolation(propC16, fsc, fsc.Execute(t))
			}
			g = ng
			if !g.acyclic() {
				fmt.Printf("HARNESS-ERROR: model graph cyclic\n")
				os.Exit(2)
			}
		}
		count++
	}
	var rec func(depth int)
	rec = func(depth int) {
		if depth > 0 {
			run()
		}
		if depth == maxLen {
			return
		}
		for _, op := range alphabet {
			seq = append(seq, op)
			rec(depth + 1)
			seq = seq[:len(seq)-1]
		}
	}
	rec(0)
	count += c16Large(t)
	core.NoteExhaustive("C16", fmt.Sprintf("all %d sequences of length 1..%d over an alphabet of %d operations on 3 type names", count, maxLen, len(alphabet)), count)
}
