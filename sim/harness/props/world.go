package props

import (
	"context"
	"fmt"
	"reflect"

	eventbus "github.com/jilio/ebu"

	"ebusim/core"
	"simshim/simrt"
)

// Decision-point sites owned by the harness.
const (
	siteHandler simrt.Site = simrt.SiteUser + iota
	siteFilter
	siteHook
	siteStoreOp
	siteClient
	siteUpcaster
	siteCallback
)

// evC is the constraint all generated event types satisfy.
type evC interface{ ~struct{ ID int } }

func idOf[T evC](e T) int { return (struct{ ID int })(e).ID }

// TypeOps gives non-generic access to the generic ebu API for one event type.
type TypeOps struct {
	Idx   int
	Name  string
	RT    reflect.Type
	Sub   func(w *World, fn, uid int, opts []eventbus.SubscribeOption) error
	Unsub func(w *World, fn int) error
	Pub   func(w *World, ctx context.Context, id int) // ctx == nil: Publish
	// PubAny publishes the same event through an interface-typed value (T = any), which
	// makes ebu dispatch through its reflection fallback instead of the typed fast path.
	PubAny func(w *World, ctx context.Context, id int)
	Clear func(w *World)
	Has   func(w *World) bool
	Count func(w *World) int
	Filt  func(w *World, fn int, kind int) eventbus.SubscribeOption
	// Prep creates (and caches) the handler closure for (fn, uid) ahead of time
	Prep func(w *World, fn, uid int)
	// reflect types of the two handler forms, as the panic handler reports them
	PlainHT, CtxHT reflect.Type
	// IDOf extracts the id from an event value of this type passed as any
	IDOf func(ev any) (int, bool)
	// SubReplay is SubscribeWithReplay for this type with a handler that calls h
	SubReplay func(w *World, ctx context.Context, subID string, h func(id int), opts ...eventbus.SubscribeOption) error
	// PersistName is the type name events of this type are persisted under
	PersistName string
}

// fn numbering: 0..numSites-1 are plain handlers, numSites..2*numSites-1 context-aware ones.
func isCtxFn(fn int) bool { return fn >= numSites }

func mkOps[T evC](idx int) *TypeOps {
	var zero T
	o := &TypeOps{Idx: idx, RT: reflect.TypeOf(zero), Name: reflect.TypeOf(zero).String()}
	o.PlainHT = reflect.TypeOf(eventbus.Handler[T](nil))
	o.CtxHT = reflect.TypeOf(eventbus.ContextHandler[T](nil))
	o.IDOf = func(ev any) (int, bool) {
		e, ok := ev.(T)
		if !ok {
			return 0, false
		}
		return idOf(e), true
	}
	ps, cs := plainSites[T](), ctxSites[T]()
	// Closures made by one site share its code pointer (that is what ebu's Unsubscribe compares)
	// but capture their own uid, like handlers built by a factory function in user code.
	plain := func(w *World, fn, uid int) func(T) {
		k := [3]int{idx, fn, uid}
		if h, ok := w.handlers[k]; ok {
			return h.(func(T))
		}
		h := ps[fn](func(e T) { w.invoke(idx, fn, uid, nil, idOf(e)) })
		w.handlers[k] = h
		return h
	}
	ctxh := func(w *World, fn, uid int) func(context.Context, T) {
		k := [3]int{idx, fn, uid}
		if h, ok := w.handlers[k]; ok {
			return h.(func(context.Context, T))
		}
		h := cs[fn-numSites](func(c context.Context, e T) { w.invoke(idx, fn, uid, c, idOf(e)) })
		w.handlers[k] = h
		return h
	}
	o.Prep = func(w *World, fn, uid int) {
		if isCtxFn(fn) {
			ctxh(w, fn, uid)
		} else {
			plain(w, fn, uid)
		}
	}
	o.Sub = func(w *World, fn, uid int, opts []eventbus.SubscribeOption) error {
		if isCtxFn(fn) {
			return eventbus.SubscribeContext[T](w.Bus, ctxh(w, fn, uid), opts...)
		}
		return eventbus.Subscribe[T](w.Bus, plain(w, fn, uid), opts...)
	}
	o.Unsub = func(w *World, fn int) error {
		if isCtxFn(fn) {
			return eventbus.Unsubscribe[T](w.Bus, ctxh(w, fn, -1))
		}
		return eventbus.Unsubscribe[T](w.Bus, plain(w, fn, -1))
	}
	o.Pub = func(w *World, ctx context.Context, id int) {
		if ctx == nil {
			eventbus.Publish(w.Bus, T{ID: id})
		} else {
			eventbus.PublishContext(w.Bus, ctx, T{ID: id})
		}
	}
	o.PubAny = func(w *World, ctx context.Context, id int) {
		var ev any = T{ID: id}
		if ctx == nil {
			eventbus.Publish(w.Bus, ev)
		} else {
			eventbus.PublishContext(w.Bus, ctx, ev)
		}
	}
	o.SubReplay = func(w *World, ctx context.Context, subID string, h func(id int), opts ...eventbus.SubscribeOption) error {
		return eventbus.SubscribeWithReplay(ctx, w.Bus, subID, func(e T) { h(idOf(e)) }, opts...)
	}
	o.PersistName = eventbus.EventType(zero)
	o.Clear = func(w *World) { eventbus.Clear[T](w.Bus) }
	o.Has = func(w *World) bool { return eventbus.HasHandlers[T](w.Bus) }
	o.Count = func(w *World) int { return eventbus.HandlerCount[T](w.Bus) }
	o.Filt = func(w *World, fn int, kind int) eventbus.SubscribeOption {
		if kind >= 10 {
			// the same predicate declared over an interface type the event satisfies (WithFilter[any]): a filter
			// for every event type the handler may ever be subscribed with - and just as binding
			return eventbus.WithFilter(func(e any) bool {
				ev, isT := e.(T)
				if !isT {
					return true
				}
				id := idOf(ev)
				ok := filterAccepts(kind, id)
				if w.OnFilter != nil {
					w.OnFilter(idx, fn, id, ok)
				}
				return ok
			})
		}
		return eventbus.WithFilter(func(e T) bool {
			id := idOf(e)
			ok := filterAccepts(kind, id)
			if w.OnFilter != nil {
				w.OnFilter(idx, fn, id, ok)
			}
			return ok
		})
	}
	return o
}

// Filter kinds (0 = no filter).
func filterAccepts(kind, id int) bool {
	switch kind % 10 { // kinds 11-14: the same rules, predicate declared over `any`
	case 1:
		return id%2 == 0
	case 2:
		return id%2 == 1
	case 3:
		return false
	case 4:
		return id%3 == 0
	}
	return true
}

// World is one bus plus the harness state of one run.
type World struct {
	Bus      *eventbus.EventBus
	Rec      core.Recorder
	handlers map[[3]int]any
	// OnInvoke is the body of every harness handler.
	OnInvoke func(ti, fn, uid int, ctx context.Context, id int)
	OnFilter func(ti, fn, id int, accepted bool)
	// ShareOptions: see SubscribeUID
	ShareOptions bool
	sharedOpts   map[string]eventbus.SubscribeOption
}

func NewWorld(opts ...eventbus.Option) *World {
	w := &World{handlers: map[[3]int]any{}}
	w.Bus = eventbus.New(opts...)
	return w
}

func (w *World) invoke(ti, fn, uid int, ctx context.Context, id int) {
	if simrt.Dying() {
		return
	}
	if w.OnInvoke != nil {
		w.OnInvoke(ti, fn, uid, ctx, id)
	}
}

// SubOpts describes the options of one registration.
type SubOpts struct {
	Once   bool `json:"once,omitempty"`
	Async  bool `json:"async,omitempty"`
	Seq    bool `json:"seq,omitempty"`
	Filter int  `json:"filter,omitempty"`
	Rev    bool `json:"rev,omitempty"` // pass the options in reverse order (Sequential before Async, ...)
}

func (w *World) Subscribe(ti, fn int, o SubOpts) error { return w.SubscribeUID(ti, fn, 0, o) }

// SubscribeUID subscribes a closure of site fn that reports uid on every invocation.
func (w *World) SubscribeUID(ti, fn, uid int, o SubOpts) error {
	var opts []eventbus.SubscribeOption
	// ShareOptions: one option VALUE per kind is created once and reused by every subscription of this
	// world (`once := eventbus.Once()` kept in a variable, a shared []SubscribeOption), instead of a fresh
	// value per call. Options are plain configuration: reusing one must not couple the subscriptions.
	opt := func(kind string, mk func() eventbus.SubscribeOption) eventbus.SubscribeOption {
		if !w.ShareOptions {
			return mk()
		}
		if w.sharedOpts == nil {
			w.sharedOpts = map[string]eventbus.SubscribeOption{}
		}
		if _, ok := w.sharedOpts[kind]; !ok {
			w.sharedOpts[kind] = mk()
		}
		return w.sharedOpts[kind]
	}
	if o.Once {
		opts = append(opts, opt("once", eventbus.Once))
	}
	if o.Async {
		opts = append(opts, opt("async", eventbus.Async))
	}
	if o.Seq {
		opts = append(opts, opt("seq", eventbus.Sequential))
	}
	if o.Filter != 0 {
		opts = append(opts, allTypes[ti].Filt(w, fn, o.Filter))
	}
	if o.Rev {
		for i, j := 0, len(opts)-1; i < j; i, j = i+1, j-1 {
			opts[i], opts[j] = opts[j], opts[i]
		}
	}
	return allTypes[ti].Sub(w, fn, uid, opts)
}

func regKey(ti, fn int) int { return ti*100 + fn }

func regName(key int) string { return fmt.Sprintf("E%02d/f%d", key/100, key%100) }

func clearAll(w *World) { eventbus.ClearAll(w.Bus) }
