package props

import (
	"context"
	"errors"
	"fmt"
	"testing"
	"time"

	eventbus "github.com/jilio/ebu"
	"pgregory.net/rapid"

	"ebusim/core"
	"simshim/simrt"
)

// C06 — Wait and Shutdown return only after all asynchronous work has finished.

type C06Reg struct {
	Side    int  `json:"side"` // 0: handles type A, 1: handles type B
	SleepMs int  `json:"sleep_ms"`
	Nested  bool `json:"nested,omitempty"` // (side 0 only) publishes an event of type B from inside the handler
	Sync    bool `json:"sync,omitempty"`   // synchronous registration (may still publish nested async work)
	Seq     bool `json:"seq,omitempty"`    // Sequential as well (async registrations: deliveries queue for their turn)
	Filter  int  `json:"filter,omitempty"` // 0 none, 1 even ids, 2 odd ids: registrations of one type see different event counts
}

type C06Step struct {
	Kind    string `json:"kind"` // pub, pubc (a publish whose context a task of its own cancels 0-12 steps later), sleep, wait, shutdown
	Ms      int    `json:"ms,omitempty"`
	CtxKind int    `json:"ctx,omitempty"` // shutdown: 0 background, 1 deadline after Ms, 2 already cancelled
}

type C06Scenario struct {
	core.Base
	TypeA     int         `json:"type_a"`
	TypeB     int         `json:"type_b"`
	Regs      []C06Reg    `json:"regs"`
	Waiter    []C06Step   `json:"waiter"`
	Others    [][]C06Step `json:"others"` // concurrent publisher tasks (pub / sleep only)
	StoreKind int         `json:"store"`  // 0 store with Close, 1 store without Close, 2 Close fails, 3 no store
	TimeoutMs int         `json:"persist_timeout_ms,omitempty"` // WithPersistenceTimeout (bounds the append only, never a handler's context)
}

func genC06(rt *rapid.T) core.Scenario {
	sc := &C06Scenario{}
	sc.TypeA = rapid.IntRange(0, len(allTypes)-1).Draw(rt, "typeA")
	sc.TypeB = (sc.TypeA + 1 + rapid.IntRange(0, len(allTypes)-2).Draw(rt, "typeB")) % len(allTypes)
	n := rapid.IntRange(1, 4).Draw(rt, "nRegs")
	for i := 0; i < n; i++ {
		r := C06Reg{Side: rapid.IntRange(0, 1).Draw(rt, "side"), SleepMs: rapid.SampledFrom([]int{0, 1, 5, 20, 50}).Draw(rt, "sleep")}
		if i == 0 {
			r.Side = 0
		}
		if r.Side == 0 {
			r.Nested = rapid.Bool().Draw(rt, "nested")
			r.Sync = rapid.IntRange(0, 4).Draw(rt, "sync") == 4
		}
		r.Seq = rapid.IntRange(0, 2).Draw(rt, "seq") == 2
		r.Filter = rapid.SampledFrom([]int{0, 0, 1, 2}).Draw(rt, "filter")
		sc.Regs = append(sc.Regs, r)
	}
	step := func(l string, waiter bool) C06Step {
		kinds := []string{"pub", "pub", "pubc", "sleep"}
		if waiter {
			kinds = []string{"pub", "pub", "pubc", "sleep", "wait", "shutdown", "shutdown"}
		}
		s := C06Step{Kind: rapid.SampledFrom(kinds).Draw(rt, l+"Kind")}
		switch s.Kind {
		case "sleep":
			s.Ms = rapid.SampledFrom([]int{1, 5, 20, 60}).Draw(rt, l+"Ms")
		case "shutdown":
			s.CtxKind = rapid.IntRange(0, 2).Draw(rt, l+"Ctx")
			s.Ms = rapid.SampledFrom([]int{0, 1, 5, 20, 60, 200}).Draw(rt, l+"Deadline")
		}
		return s
	}
	nw := rapid.IntRange(1, 7).Draw(rt, "nWaiterSteps")
	for i := 0; i < nw; i++ {
		sc.Waiter = append(sc.Waiter, step("w", true))
	}
	no := rapid.IntRange(0, 2).Draw(rt, "nOthers")
	for o := 0; o < no; o++ {
		k := rapid.IntRange(1, 4).Draw(rt, "nOtherSteps")
		var l []C06Step
		for i := 0; i < k; i++ {
			l = append(l, step("o", false))
		}
		sc.Others = append(sc.Others, l)
	}
	sc.StoreKind = rapid.IntRange(0, 3).Draw(rt, "store")
	if sc.StoreKind != 3 {
		sc.TimeoutMs = rapid.SampledFrom([]int{0, 0, 1, 30}).Draw(rt, "persistTimeout")
	}
	sc.Tape = core.DrawTape(rt, 500)
	return sc
}

// closeStore is a trivial EventStore whose Close calls are counted.
type plainStore struct{ n int }

func (s *plainStore) Append(ctx context.Context, e *eventbus.Event) (eventbus.Offset, error) {
	s.n++
	return eventbus.Offset(fmt.Sprintf("%020d", s.n)), nil
}
func (s *plainStore) Read(ctx context.Context, from eventbus.Offset, limit int) ([]*eventbus.StoredEvent, eventbus.Offset, error) {
	return nil, from, nil
}

type closeStore struct {
	plainStore
	fail   bool
	stamps []int64
	rec    *core.Recorder
}

func (s *closeStore) Close() error {
	if simrt.Dying() {
		return nil
	}
	s.stamps = append(s.stamps, s.rec.Add("store-close", 0, 0, ""))
	if s.fail {
		return errors.New("close failed")
	}
	return nil
}

type c06Inv struct {
	Reg         int
	Ev          int
	Enter, Exit int64
	Async       bool
}

type c06Wait struct {
	Kind      string
	Call, Ret int64
	Err       error
	CtxKind   int
}

func (sc *C06Scenario) Execute(t *testing.T) *core.Outcome {
	out := &core.Outcome{}
	var w *World
	var cs *closeStore
	parent := map[int]int{}   // nested event id -> event id of the invocation that published it
	pubRet := map[int]int64{} // top-level event id -> stamp at which its Publish returned
	var invs []*c06Inv
	var waits []*c06Wait
	var allEvents []int // every event id published, with its type side
	side := map[int]int{}
	nextID := 0
	cancellable := map[int]bool{} // top-level events published with a context that gets cancelled
	bothReady := 0
	body := func() {
		var opts []eventbus.Option
		switch sc.StoreKind {
		case 0, 2:
			cs = &closeStore{fail: sc.StoreKind == 2}
			opts = append(opts, eventbus.WithStore(cs))
		case 1:
			opts = append(opts, eventbus.WithStore(&plainStore{}))
		}
		if sc.TimeoutMs > 0 {
			opts = append(opts, eventbus.WithPersistenceTimeout(time.Duration(sc.TimeoutMs)*time.Millisecond))
		}
		w = NewWorld(opts...)
		if cs != nil {
			cs.rec = &w.Rec
		}
		w.OnInvoke = func(ti, fn, uid int, ctx context.Context, id int) {
			r := sc.Regs[uid]
			iv := &c06Inv{Reg: uid, Ev: id, Async: !r.Sync}
			iv.Enter = w.Rec.Add("enter", uid, id, "")
			invs = append(invs, iv)
			if r.SleepMs > 0 {
				simrt.Sleep(time.Duration(r.SleepMs) * time.Millisecond)
			} else {
				simrt.Yield(siteHandler)
			}
			if r.Nested {
				nextID++
				cid := nextID
				parent[cid] = id
				side[cid] = 1
				allEvents = append(allEvents, cid)
				w.Rec.Add("nested-pub", cid, id, "")
				allTypes[sc.TypeB].Pub(w, context.Background(), cid)
			}
			iv.Exit = w.Rec.Add("exit", uid, id, "")
		}
		for i, r := range sc.Regs {
			ti := sc.TypeA
			if r.Side == 1 {
				ti = sc.TypeB
			}
			if err := w.SubscribeUID(ti, i%numSites, i, SubOpts{Async: !r.Sync, Seq: r.Seq, Filter: r.Filter}); err != nil {
				out.HarnessErr = err.Error()
				return
			}
		}
		runSteps := func(steps []C06Step) {
			for _, s := range steps {
				switch s.Kind {
				case "pub", "pubc":
					nextID++
					id := nextID
					side[id] = 0
					ctx := context.Background()
					if s.Kind == "pubc" {
						// deliveries of this event are indeterminate (at most once each); every invocation that does
						// happen is asynchronous work like any other, and the bus's accounting must survive the
						// cancellation landing anywhere in the dispatch loop
						cancellable[id] = true
						c, cancel := context.WithCancel(ctx)
						ctx = c
						delay := (id * 5) % 13
						simrt.GoNamed(fmt.Sprintf("cancel%d", id), func() {
							for i := 0; i < delay; i++ {
								simrt.Yield(siteHandler)
							}
							cancel()
						})
					} else {
						allEvents = append(allEvents, id)
					}
					w.Rec.Add("pub-call", id, 0, "")
					allTypes[sc.TypeA].Pub(w, ctx, id)
					pubRet[id] = w.Rec.Add("pub-ret", id, 0, "")
				case "sleep":
					simrt.Sleep(time.Duration(s.Ms) * time.Millisecond)
				case "wait":
					wt := &c06Wait{Kind: "wait"}
					waits = append(waits, wt)
					wt.Call = w.Rec.Add("wait-call", 0, 0, "")
					w.Bus.Wait()
					wt.Ret = w.Rec.Add("wait-ret", 0, 0, "")
				case "shutdown":
					wt := &c06Wait{Kind: "shutdown", CtxKind: s.CtxKind}
					waits = append(waits, wt)
					ctx := context.Background()
					cancel := func() {}
					switch s.CtxKind {
					case 1:
						ctx, cancel = context.WithTimeout(ctx, time.Duration(s.Ms)*time.Millisecond)
					case 2:
						ctx, cancel = context.WithCancel(ctx)
						cancel()
					}
					wt.Call = w.Rec.Add("shutdown-call", s.CtxKind, s.Ms, "")
					wt.Err = w.Bus.Shutdown(ctx)
					x := ""
					if wt.Err != nil {
						x = wt.Err.Error()
					}
					wt.Ret = w.Rec.Add("shutdown-ret", 0, 0, x)
					cancel()
				}
			}
		}
		var tasks []*simrt.Task
		tasks = append(tasks, simrt.GoNamed("waiter", func() { runSteps(sc.Waiter) }))
		for i, l := range sc.Others {
			l := l
			tasks = append(tasks, simrt.GoNamed(fmt.Sprintf("other%d", i), func() { runSteps(l) }))
		}
		simrt.Join(tasks...)
		w.Bus.Wait()
		w.Rec.Add("drained", 0, 0, "")
	}
	rep, herr := core.Sim(t, &sc.Base, nil, body)
	out.Rep = rep
	if out.HarnessErr == "" {
		out.HarnessErr = herr
	}
	if rep == nil || out.HarnessErr != "" {
		return out
	}
	out.LogHash = w.Rec.Hash()
	out.SimTime = rep.FakeDuration
	if rep.BudgetExceeded {
		out.HarnessErr = "step budget exceeded"
		return out
	}
	for _, p := range rep.Panics {
		out.V("escaped-panic", "%s: %s", p.Task, p.Value)
	}
	if rep.Deadlock {
		out.V("deadlock", "%s", rep.DeadlockInfo)
		return out
	}
	// exactly-once delivery of every event to every registration of its type
	for ri, r := range sc.Regs {
		var want, got []int
		for _, id := range allEvents {
			if side[id] == r.Side && filterAccepts(r.Filter, id) {
				want = append(want, id)
			}
		}
		seenC := map[int]int{}
		for _, iv := range invs {
			if iv.Reg == ri {
				if cancellable[iv.Ev] {
					seenC[iv.Ev]++
					if seenC[iv.Ev] > 1 {
						out.V("async-delivery", "registration %d received the (cancelled) event %d %d times", ri, iv.Ev, seenC[iv.Ev])
					}
					continue
				}
				got = append(got, iv.Ev)
			}
		}
		if !sameMultiset(want, got) {
			out.V("async-delivery", "registration %d received %v, expected each of %v exactly once", ri, got, want)
		}
	}
	root := func(id int) int {
		for {
			p, ok := parent[id]
			if !ok {
				return id
			}
			id = p
		}
	}
	_ = bothReady
	nilShutdowns := 0
	for _, wt := range waits {
		out.Nontrivial = true
		covered := func(iv *c06Inv) bool {
			r, ok := pubRet[root(iv.Ev)]
			return ok && r < wt.Call && iv.Async
		}
		unfinished := func() *c06Inv {
			for _, iv := range invs {
				if covered(iv) && (iv.Exit == 0 || iv.Exit > wt.Ret) {
					return iv
				}
			}
			return nil
		}
		pending := 0
		for _, iv := range invs {
			if covered(iv) && (iv.Exit == 0 || iv.Exit > wt.Call) {
				pending++
			}
		}
		if pending > 0 {
			out.Probe("wait-called-with-async-work-pending")
		}
		closesDuring := 0
		var closeStamp int64
		if cs != nil {
			for _, st := range cs.stamps {
				if st > wt.Call && st < wt.Ret {
					closesDuring++
					closeStamp = st
				}
			}
		}
		switch {
		case wt.Kind == "wait":
			if iv := unfinished(); iv != nil {
				out.V("wait-returned-early", "Wait (called #%d, returned #%d) returned while the async invocation of registration %d for event %d (caused by a publish that had returned before Wait was called) had not finished (exit #%d)", wt.Call, wt.Ret, iv.Reg, iv.Ev, iv.Exit)
			}
			if closesDuring > 0 {
				out.V("close-outside-shutdown", "store closed during Wait")
			}
		case wt.Err == nil:
			nilShutdowns++
			if iv := unfinished(); iv != nil {
				out.V("shutdown-returned-early", "Shutdown (called #%d, returned nil #%d) returned while the async invocation of registration %d for event %d had not finished (exit #%d)", wt.Call, wt.Ret, iv.Reg, iv.Ev, iv.Exit)
			}
			if cs != nil && closesDuring != 1 {
				out.V("shutdown-close-count", "Shutdown returned nil but the store's Close was called %d times during it", closesDuring)
			}
			if cs != nil && closesDuring == 1 {
				for _, iv := range invs {
					if covered(iv) && iv.Exit > closeStamp {
						out.V("close-before-handlers-finished", "store closed (#%d) before the async invocation of registration %d for event %d finished (#%d)", closeStamp, iv.Reg, iv.Ev, iv.Exit)
					}
				}
			}
		case errors.Is(wt.Err, context.DeadlineExceeded) || errors.Is(wt.Err, context.Canceled):
			out.Fault("shutdown-context-expired")
			if closesDuring > 0 {
				out.V("close-on-context-error", "Shutdown returned %v but closed the store", wt.Err)
			}
			if wt.CtxKind == 0 {
				out.V("shutdown-spurious-error", "Shutdown with a background context returned %v", wt.Err)
			}
		default:
			// the store's Close failed: Shutdown reports it; same completion condition applies
			nilShutdowns++
			if sc.StoreKind != 2 {
				out.V("shutdown-spurious-error", "Shutdown returned unexpected error %v", wt.Err)
			}
			if iv := unfinished(); iv != nil {
				out.V("shutdown-returned-early", "Shutdown (returned %v) returned while the async invocation of registration %d for event %d had not finished", wt.Err, iv.Reg, iv.Ev)
			}
			if closesDuring != 1 {
				out.V("shutdown-close-count", "Shutdown reported a close failure but Close was called %d times during it", closesDuring)
			}
		}
	}
	if cs != nil && len(cs.stamps) != nilShutdowns {
		out.V("close-count-total", "store Close called %d times in the run, but %d Shutdown calls completed their wait (a Shutdown that returned the context's error must never close the store, then or later)", len(cs.stamps), nilShutdowns)
	}
	out.Summary = fmt.Sprintf("%d regs, waiter %d steps, %d others, %d wait/shutdown calls, store kind %d", len(sc.Regs), len(sc.Waiter), len(sc.Others), len(waits), sc.StoreKind)
	return out
}

var propC06 = &core.Property{ID: "C06", Gen: genC06, New: func() core.Scenario { return &C06Scenario{} }}

func TestC06(t *testing.T) { core.RunProperty(t, propC06) }
