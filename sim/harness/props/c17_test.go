package props

import (
	"context"
	"encoding/json"
	"errors"
	"fmt"
	"testing"
	"time"

	eventbus "github.com/jilio/ebu"
	"pgregory.net/rapid"

	"ebusim/core"
	"simshim/simrt"
)

// C17 — upcasting applies the whole chain or nothing.

type UA struct {
	V    int            `json:"v"`
	Note string         `json:"note,omitempty"`
	M    map[string]int `json:"m,omitempty"`
	// X: an interface-typed member; a JSON number in it decodes to float64 under encoding/json's default rules,
	// and the upcaster function looks at what it was given
	X any `json:"x,omitempty"`
}
type UB struct {
	V int    `json:"v"`
	W string `json:"w"`
}

// UB names itself after its value (a TypeNamer whose name depends on the value, like PEnv): the zero value - which is
// what RegisterUpcast[_, UB] and RegisterUpcast[UB, _] derive the edge's name from - has one name, every UB that upAB
// produces or that is stored has another W and would report another. The name of an upcast edge is that of the type
// it was registered for, so the model and the stored events use nameUB = EventType(UB{}) throughout; only code that
// names the edge after the value an upcaster happened to produce sees the other name.
func (b UB) EventTypeName() string {
	if b.W == "" {
		return "props.UB.v2"
	}
	return "props.UB.v2/" + b.W[:1]
}

type UC struct {
	Total int      `json:"total"`
	Tags  []string `json:"tags"`
}

func upAB(a UA) UB {
	w := fmt.Sprintf("from-a-%d-%s-%d", a.V, a.Note, len(a.M))
	if a.X != nil {
		w += fmt.Sprintf("-%T:%v", a.X, a.X)
	}
	return UB{V: a.V + 1, W: w}
}

// mkUA: stored UA payloads of different shapes (fields present or omitted), so that a decoder
// that carries state from one event to the next is visible.
func mkUA(v int) UA {
	a := UA{V: v}
	if v%2 == 0 {
		a.Note = fmt.Sprintf("n%d", v)
	}
	if v%3 == 0 {
		a.M = map[string]int{fmt.Sprintf("k%d", v): v}
	}
	switch v % 5 {
	case 1:
		a.X = float64(v) + 0.5
	case 3:
		a.X = []any{float64(v), "s", map[string]any{"n": 1e21}}
	}
	return a
}
func upBC(b UB) UC { return UC{Total: b.V * 10, Tags: []string{b.W, "b"}} }

var (
	nameUA = eventbus.EventType(UA{})
	nameUB = eventbus.EventType(UB{})
	nameUC = eventbus.EventType(UC{})
)

type C17Edge struct {
	From int `json:"from"` // raw name index
	To   int `json:"to"`   // raw name index (> From), or 100 = the typed family's UA
	// Ret, if non-zero: the upcaster returns this type (> From, so walks still terminate) instead of the target
	// it was registered with - a splitting upcaster. The walk continues from the type actually returned.
	Ret int `json:"ret,omitempty"`
}

type C17Ev struct {
	Type int    `json:"type"` // raw name index, or 100 UA, 101 UB, 102 UC
	Bad  bool   `json:"bad,omitempty"` // typed events only: data that does not decode into the source struct
	V    int    `json:"v"`
}

type C17Scenario struct {
	core.Base
	Edges      []C17Edge `json:"edges"`
	Typed      int       `json:"typed"` // 0 none, 1 UA->UB, 2 UA->UB->UC
	Log        []C17Ev   `json:"log"`
	FailAt     int       `json:"fail_at"` // the k-th upcaster application of the replay fails (-1: none)
	ErrHandler bool      `json:"err_handler"`
	BySetter   bool      `json:"by_setter,omitempty"`  // error handler installed with SetUpcastErrorHandler after New
	ByOption   bool      `json:"by_option,omitempty"`  // raw upcasters registered with the WithUpcast option instead of RegisterUpcastFunc
	StoreLast  bool      `json:"store_last,omitempty"` // WithStore is the last option
	// ClearFirst: the registry has a history before the upcasters under test are registered: a decoy upcaster
	// is registered and then removed with ClearUpcasts (1) or ClearUpcastsForType (2). Neither may cost the bus
	// its error handler or change what the later registrations do.
	ClearFirst int `json:"clear_first,omitempty"`
	// HandlerLast: the WithUpcastErrorHandler option comes after the WithUpcast options (and the store) instead of before
	HandlerLast bool `json:"handler_last,omitempty"`
	// ClearSrcP1 (0 = none): after all registrations, ClearUpcastsForType(source ClearSrcP1-1) removes every
	// upcaster of that one source type; the upcasters of every other source keep working
	ClearSrcP1 int `json:"clear_src_p1,omitempty"`
	Subscribe  bool      `json:"subscribe,omitempty"` // also check SubscribeWithReplay[UC]
	Store      StoreCfg  `json:"store"`
	// ClearDuring: another task calls ClearUpcasts while the replay runs. Each event must then be seen
	// either fully upcast or untouched - never at an intermediate type.
	ClearDuring bool `json:"clear_during,omitempty"`
	// CancelAtP1 (0 = never): the callback's (CancelAtP1-1)-th call cancels the context of the replay. The replay
	// may stop there or (a paged store notices between pages) hand over some more events; every event it does
	// hand over is still the whole chain's result.
	CancelAtP1 int `json:"cancel_at_p1,omitempty"`
	// Twin: a second task replays the same log with upcasting at the same time (no failures injected): both see
	// every event as the whole chain's result - one replay's bookkeeping is not the other's
	Twin bool `json:"twin,omitempty"`
}

func c17Name(i int) string {
	switch i {
	case 100:
		return nameUA
	case 101:
		return nameUB
	case 102:
		return nameUC
	}
	return fmt.Sprintf("R%d", i)
}

func genC17(rt *rapid.T) core.Scenario {
	sc := &C17Scenario{FailAt: -1}
	n := rapid.IntRange(0, 8).Draw(rt, "nEdges")
	sc.Typed = rapid.IntRange(0, 2).Draw(rt, "typed")
	for i := 0; i < n; i++ {
		from := rapid.IntRange(0, 5).Draw(rt, "from")
		to := rapid.IntRange(from+1, 6).Draw(rt, "to")
		if sc.Typed > 0 && rapid.IntRange(0, 5).Draw(rt, "toTyped") == 5 {
			to = 100
		}
		e := C17Edge{From: from, To: to}
		if to != 100 && rapid.IntRange(0, 3).Draw(rt, "lies") == 3 {
			e.Ret = rapid.IntRange(from+1, 7).Draw(rt, "ret")
		}
		sc.Edges = append(sc.Edges, e)
	}
	// long chains: one linear chain R0 -> R1 -> ... -> RL, far longer than anything a suite would write down
	maxType, maxFail := 6, 10
	if rapid.IntRange(0, 4).Draw(rt, "long") == 4 {
		L := rapid.IntRange(8, 40).Draw(rt, "chainLen")
		sc.Edges = nil
		for i := 0; i < L; i++ {
			sc.Edges = append(sc.Edges, C17Edge{From: i, To: i + 1})
		}
		maxType, maxFail = L/2, 3*L
	}
	nl := rapid.IntRange(1, 6).Draw(rt, "nLog")
	for i := 0; i < nl; i++ {
		ev := C17Ev{Type: rapid.IntRange(0, maxType).Draw(rt, "evType"), V: rapid.IntRange(0, 50).Draw(rt, "v")}
		if sc.Typed > 0 && rapid.IntRange(0, 2).Draw(rt, "typedEv") == 2 {
			ev.Type = rapid.SampledFrom([]int{100, 100, 101, 102}).Draw(rt, "typedType")
			ev.Bad = rapid.IntRange(0, 4).Draw(rt, "bad") == 4
		}
		sc.Log = append(sc.Log, ev)
	}
	if rapid.IntRange(0, 1).Draw(rt, "fail") == 1 {
		sc.FailAt = rapid.IntRange(0, maxFail).Draw(rt, "failAt")
	}
	sc.ErrHandler = rapid.IntRange(0, 3).Draw(rt, "errHandler") > 0
	sc.BySetter = sc.ErrHandler && rapid.IntRange(0, 2).Draw(rt, "bySetter") == 2
	sc.ByOption = rapid.IntRange(0, 2).Draw(rt, "byOption") == 2
	sc.StoreLast = rapid.IntRange(0, 2).Draw(rt, "storeLast") == 2
	if !sc.ByOption {
		sc.ClearFirst = rapid.SampledFrom([]int{0, 0, 1, 2}).Draw(rt, "clearFirst")
	}
	sc.HandlerLast = sc.ErrHandler && !sc.BySetter && rapid.Bool().Draw(rt, "handlerLast")
	if len(sc.Edges) > 0 && rapid.IntRange(0, 3).Draw(rt, "clearSrc") == 3 {
		sc.ClearSrcP1 = sc.Edges[rapid.IntRange(0, len(sc.Edges)-1).Draw(rt, "clearWhich")].From + 1
	}
	sc.Subscribe = sc.Typed == 2 && rapid.Bool().Draw(rt, "subscribe")
	sc.Store = StoreCfg{Kind: rapid.SampledFrom([]string{"mem", "mem", "mem", "sqlite"}).Draw(rt, "store")}
	sc.Store.HideStreamer = rapid.IntRange(0, 2).Draw(rt, "paged") == 2
	if !sc.Subscribe && rapid.IntRange(0, 3).Draw(rt, "cancels") == 3 {
		sc.CancelAtP1 = 1 + rapid.IntRange(0, 3).Draw(rt, "cancelAt")
	}
	if rapid.IntRange(0, 3).Draw(rt, "clearDuring") == 3 {
		sc.ClearDuring = true
		sc.FailAt = -1
		sc.Subscribe = false
		sc.CancelAtP1 = 0
		sc.Tape = core.DrawTape(rt, 200)
	} else if sc.CancelAtP1 == 0 && rapid.IntRange(0, 3).Draw(rt, "twin") == 3 {
		sc.Twin = true
		sc.FailAt = -1
		sc.Tape = core.DrawTape(rt, 200)
	}
	return sc
}

func (ev C17Ev) data() []byte {
	if ev.Type >= 100 {
		if ev.Bad && ev.Type != 102 { // (an undecodable event of the subscribed type itself makes SubscribeWithReplay fail by design)
			return []byte(`{"v":"not-a-number","total":"x"}`)
		}
		switch ev.Type {
		case 100:
			return mustJSON(mkUA(ev.V))
		case 101:
			return mustJSON(UB{V: ev.V, W: "stored"})
		default:
			return mustJSON(UC{Total: ev.V, Tags: []string{"stored"}})
		}
	}
	return mustJSON([]string{fmt.Sprintf("origin-%d", ev.V)})
}

var errUpcastInjected = errors.New("injected upcaster failure")

// one upcaster step, shared by the model and the registered functions
func c17Step(edgeIdx int, e C17Edge, data []byte) ([]byte, string, error) {
	var arr []string
	if err := json.Unmarshal(data, &arr); err != nil {
		return nil, "", err
	}
	arr = append(arr, fmt.Sprintf("%d>%d#%d", e.From, e.To, edgeIdx))
	if e.To == 100 {
		return mustJSON(UA{V: len(arr)}), nameUA, nil
	}
	if e.Ret != 0 {
		return mustJSON(arr), c17Name(e.Ret), nil
	}
	return mustJSON(arr), c17Name(e.To), nil
}

type c17Seen struct {
	Offset eventbus.Offset
	Type   string
	Data   string
	TS     time.Time
}

func (sc *C17Scenario) Execute(t *testing.T) *core.Outcome {
	out := &core.Outcome{}
	var rec core.Recorder
	body := func() {
		env := newStoreEnv()
		defer env.Close()
		store, err := env.openStore(sc.Store, "main")
		if err != nil {
			out.HarnessErr = err.Error()
			return
		}
		ctx := context.Background()
		applications := 0
		failed := 0
		var errCalls []string
		var opts []eventbus.Option
		var busStore eventbus.EventStore = store
		if sc.Store.HideStreamer {
			busStore = newFcore(store, FaultPlan{}, &rec).wrap(true) // the bus sees Append / Read only: replays go page by page
		}
		if !sc.StoreLast {
			opts = append(opts, eventbus.WithStore(busStore))
		}
		errHandler := func(typ string, data json.RawMessage, err error) {
			errCalls = append(errCalls, typ)
		}
		if sc.ErrHandler && !sc.BySetter && !sc.HandlerLast {
			opts = append(opts, eventbus.WithUpcastErrorHandler(errHandler))
		}
		tick := func() error { // called at the start of every upcaster application
			k := applications
			applications++
			if k == sc.FailAt {
				failed++
				return errUpcastInjected
			}
			return nil
		}
		rawUpcaster := func(i int, e C17Edge) eventbus.UpcastFunc {
			return func(d json.RawMessage) (json.RawMessage, string, error) {
				simrt.Yield(siteUpcaster)
				if err := tick(); err != nil {
					return nil, "", err
				}
				nd, nt, err := c17Step(i, e, d)
				return nd, nt, err
			}
		}
		if sc.ByOption {
			for i, e := range sc.Edges {
				opts = append(opts, eventbus.WithUpcast(c17Name(e.From), c17Name(e.To), rawUpcaster(i, e)))
			}
		}
		if sc.StoreLast {
			opts = append(opts, eventbus.WithStore(busStore))
		}
		if sc.ErrHandler && !sc.BySetter && sc.HandlerLast {
			opts = append(opts, eventbus.WithUpcastErrorHandler(errHandler))
		}
		bus := eventbus.New(opts...)
		if sc.ErrHandler && sc.BySetter {
			bus.SetUpcastErrorHandler(errHandler)
		}
		if sc.ClearFirst > 0 {
			eventbus.RegisterUpcastFunc(bus, "decoy.a", "decoy.b", func(d json.RawMessage) (json.RawMessage, string, error) { return d, "decoy.b", nil })
			if sc.ClearFirst == 1 {
				bus.ClearUpcasts()
			} else {
				bus.ClearUpcastsForType("decoy.a")
			}
		}
		if !sc.ByOption {
			for i, e := range sc.Edges {
				if err := eventbus.RegisterUpcastFunc(bus, c17Name(e.From), c17Name(e.To), rawUpcaster(i, e)); err != nil {
					out.HarnessErr = "register: " + err.Error()
					return
				}
			}
		}
		if sc.ClearSrcP1 > 0 {
			bus.ClearUpcastsForType(c17Name(sc.ClearSrcP1 - 1))
		}
		// typed upcasters cannot fail by injection (their function has no error result); they fail on undecodable data
		if sc.Typed >= 1 {
			if err := eventbus.RegisterUpcast(bus, func(a UA) UB { applications++; return upAB(a) }); err != nil {
				out.HarnessErr = err.Error()
				return
			}
		}
		if sc.Typed >= 2 {
			if err := eventbus.RegisterUpcast(bus, func(b UB) UC { applications++; return upBC(b) }); err != nil {
				out.HarnessErr = err.Error()
				return
			}
		}
		var stored []*eventbus.StoredEvent
		for i, ev := range sc.Log {
			ts := time.Unix(1700000000+int64(i), int64(i)*1000).UTC()
			off, err := store.Append(ctx, &eventbus.Event{Type: c17Name(ev.Type), Data: ev.data(), Timestamp: ts})
			if err != nil {
				out.HarnessErr = "append: " + err.Error()
				return
			}
			stored = append(stored, &eventbus.StoredEvent{Offset: off, Type: c17Name(ev.Type), Data: ev.data(), Timestamp: ts})
		}
		// ---- model
		type expect struct {
			typ, data string
			errs      int
		}
		mApps := 0
		var want []expect
		wantErrCalls := 0
		for _, se := range stored {
			curT, curD := se.Type, []byte(se.Data)
			failedHere := false
			for steps := 0; steps < 500; steps++ {
				idx := -1
				for i, e := range sc.Edges {
					if c17Name(e.From) == curT && e.From != sc.ClearSrcP1-1 {
						idx = i
						break
					}
				}
				var nd []byte
				var nt string
				var err error
				switch {
				case idx >= 0:
					k := mApps
					mApps++
					if k == sc.FailAt {
						err = errUpcastInjected
					} else {
						nd, nt, err = c17Step(idx, sc.Edges[idx], curD)
					}
				case curT == nameUA && sc.Typed >= 1:
					var a UA
					if err = json.Unmarshal(curD, &a); err == nil {
						mApps++
						nd, nt = mustJSON(upAB(a)), nameUB
					}
				case curT == nameUB && sc.Typed >= 2:
					var b UB
					if err = json.Unmarshal(curD, &b); err == nil {
						mApps++
						nd, nt = mustJSON(upBC(b)), nameUC
					}
				default:
					steps = 1000
					continue
				}
				if err != nil {
					failedHere = true
					break
				}
				curT, curD = nt, nd
			}
			if failedHere {
				want = append(want, expect{se.Type, string(se.Data), 1})
				wantErrCalls++
			} else {
				want = append(want, expect{curT, string(curD), 0})
			}
		}
		// ---- real replay
		var seen []c17Seen
		var clearer *simrt.Task
		if sc.ClearDuring {
			clearer = simrt.GoNamed("clearer", func() { bus.ClearUpcasts() })
		}
		var twin *simrt.Task
		var seen2 []c17Seen
		var err2 error
		if sc.Twin {
			twin = simrt.GoNamed("twin-replay", func() {
				err2 = bus.ReplayWithUpcast(ctx, eventbus.OffsetOldest, func(e *eventbus.StoredEvent) error {
					seen2 = append(seen2, c17Seen{e.Offset, e.Type, string(e.Data), e.Timestamp})
					return nil
				})
			})
		}
		rctx, rcancel := context.WithCancel(ctx)
		defer rcancel()
		err = bus.ReplayWithUpcast(rctx, eventbus.OffsetOldest, func(e *eventbus.StoredEvent) error {
			seen = append(seen, c17Seen{e.Offset, e.Type, string(e.Data), e.Timestamp})
			if sc.CancelAtP1 > 0 && len(seen) == sc.CancelAtP1 {
				out.Fault("replay-context-cancelled-in-callback")
				rcancel()
			}
			return nil
		})
		cancelled := sc.CancelAtP1 > 0 && len(seen) >= sc.CancelAtP1
		if err != nil && !(cancelled && errors.Is(err, context.Canceled)) {
			out.V("replay-error", "ReplayWithUpcast returned %v", err)
			return
		}
		if failed > 0 {
			out.Fault("upcaster-returns-error")
		}
		simrt.Join(clearer, twin)
		if sc.Twin {
			if err2 != nil || len(seen2) != len(stored) {
				out.V("upcast-replay-count", "second concurrent replay: saw %d events of %d, error %v", len(seen2), len(stored), err2)
				return
			}
			for i, s2 := range seen2 {
				if w := want[i]; s2.Type != w.typ || !jsonEqual([]byte(s2.Data), []byte(w.data)) {
					out.V("upcast-chain-result", "second concurrent replay, event %d (stored type %s): callback saw type %s data %s, expected type %s data %s", i, stored[i].Type, s2.Type, trunc(s2.Data), w.typ, trunc(w.data))
				}
			}
		}
		if len(seen) != len(stored) && !(cancelled && len(seen) < len(stored)) {
			out.V("upcast-replay-count", "callback saw %d events, log has %d", len(seen), len(stored))
			return
		}
		if sc.ClearDuring {
			for i, s := range seen {
				w := want[i]
				full := s.Type == w.typ && jsonEqual([]byte(s.Data), []byte(w.data))
				untouched := s.Type == stored[i].Type && jsonEqual([]byte(s.Data), stored[i].Data)
				if !full && !untouched {
					out.V("partly-upcast-event-under-concurrent-clear", "event %d (stored type %s): callback saw type %s data %s while ClearUpcasts ran concurrently; legal are the full chain result (%s) or the untouched event", i, stored[i].Type, s.Type, trunc(s.Data), w.typ)
				}
			}
			return
		}
		for i, s := range seen {
			w := want[i]
			if s.Offset != stored[i].Offset || !s.TS.Equal(stored[i].Timestamp) {
				out.V("upcast-changed-offset-or-timestamp", "event %d: callback saw offset %q time %v, stored %q %v", i, s.Offset, s.TS, stored[i].Offset, stored[i].Timestamp)
			}
			if s.Type != w.typ || !jsonEqual([]byte(s.Data), []byte(w.data)) {
				kind := "upcast-chain-result"
				if w.errs > 0 {
					kind = "partly-upcast-event-after-failure"
				}
				out.V(kind, "event %d (stored type %s data %s): callback saw type %s data %s, expected type %s data %s (failure in chain=%v, fail_at=%d)", i, stored[i].Type, trunc(string(stored[i].Data)), s.Type, trunc(s.Data), w.typ, trunc(w.data), w.errs > 0, sc.FailAt)
			}
		}
		if cancelled && len(seen) < len(stored) {
			return // the replay was cut short: the remaining rules are about complete replays
		}
		if sc.Twin {
			wantErrCalls *= 2 // both replays report their failed chains
		}
		if sc.ErrHandler && len(errCalls) != wantErrCalls {
			out.V("upcast-error-handler-count", "upcast error handler called %d times for %d failed chains", len(errCalls), wantErrCalls)
		}
		for _, ev := range sc.Log {
			if ev.Bad {
				out.Fault("undecodable-typed-payload")
				break
			}
		}
		rec.Add("replayed", len(seen), applications, "")
		// ---- typed delivery through SubscribeWithReplay (fresh fault-free pass: the fail index is past by now)
		if sc.Subscribe {
			var got []UC
			mk := applications // the model's application counter for this second pass
			if err := eventbus.SubscribeWithReplay(ctx, bus, "c17", func(c UC) { got = append(got, c) }); err != nil {
				out.V("replay-error", "SubscribeWithReplay returned %v", err)
				return
			}
			var wantUC []UC
			// recompute expectations without the injected failure (applications counter moved past FailAt or not)
			for i, se := range stored {
				_ = i
				curT, curD := se.Type, []byte(se.Data)
				ok := true
				for steps := 0; steps < 500 && ok; steps++ {
					idx := -1
					for j, e := range sc.Edges {
						if c17Name(e.From) == curT && e.From != sc.ClearSrcP1-1 {
							idx = j
							break
						}
					}
					switch {
					case idx >= 0:
						if mk == sc.FailAt {
							ok = false
						} else {
							curD2, nt, err := c17Step(idx, sc.Edges[idx], curD)
							if err != nil {
								ok = false
							} else {
								curD, curT = curD2, nt
							}
						}
						mk++
					case curT == nameUA:
						var a UA
						if json.Unmarshal(curD, &a) != nil {
							ok = false
						} else {
							mk++
							curD, curT = mustJSON(upAB(a)), nameUB
						}
					case curT == nameUB:
						var b UB
						if json.Unmarshal(curD, &b) != nil {
							ok = false
						} else {
							mk++
							curD, curT = mustJSON(upBC(b)), nameUC
						}
					default:
						steps = 1000
					}
				}
				if !ok {
					curT, curD = se.Type, []byte(se.Data)
				}
				if curT == nameUC {
					var c UC
					if json.Unmarshal(curD, &c) == nil {
						wantUC = append(wantUC, c)
					}
				}
			}
			if fmt.Sprint(got) != fmt.Sprint(wantUC) {
				out.V("typed-replay-delivery", "SubscribeWithReplay[UC] delivered %v, expected %v", got, wantUC)
			}
		}
	}
	rep, herr := core.Sim(t, &sc.Base, nil, body)
	out.Rep = rep
	if out.HarnessErr == "" {
		out.HarnessErr = herr
	}
	if rep == nil {
		return out
	}
	out.LogHash = rec.Hash()
	out.Nontrivial = len(sc.Edges) > 0 || sc.Typed > 0
	for _, p := range rep.Panics {
		out.V("escaped-panic", "%s: %s\n%s", p.Task, p.Value, p.Stack)
	}
	if rep.BudgetExceeded || rep.Deadlock {
		out.HarnessErr = "run did not finish"
	}
	out.Summary = fmt.Sprintf("%d raw edges, typed family %d, %d events, fail_at %d", len(sc.Edges), sc.Typed, len(sc.Log), sc.FailAt)
	return out
}

// c17Grid: for a fixed family of acyclic graphs (chains, branches, several upcasters per source, raw edges
// leading into the typed family) and a log holding one event of every type, a failure is injected at EVERY
// upcaster application index of the replay (and none), with and without error handler.
func c17Grid(tier string, yield func(core.Scenario)) string {
	graphs := [][]C17Edge{
		{{From: 0, To: 1}},
		{{From: 0, To: 1}, {From: 1, To: 2}, {From: 2, To: 3}},
		{{From: 0, To: 1}, {From: 0, To: 2}, {From: 1, To: 3}, {From: 2, To: 3}},             // diamond, first-registered edge wins at 0
		{{From: 0, To: 2}, {From: 0, To: 1}, {From: 1, To: 2}, {From: 2, To: 4}, {From: 2, To: 3}},     // several upcasters per source
		{{From: 0, To: 1}, {From: 1, To: 100}},                           // raw chain into the typed family
		{{From: 3, To: 4}, {From: 0, To: 1}, {From: 4, To: 5}, {From: 1, To: 100}, {From: 5, To: 6}},   // two independent chains
		{{From: 0, To: 6}, {From: 1, To: 6}, {From: 2, To: 6}, {From: 3, To: 6}, {From: 4, To: 6}},     // fan-in
		{{From: 0, To: 1, Ret: 3}, {From: 1, To: 2}, {From: 3, To: 4}},  // a splitting upcaster: registered 0->1, returns 3
	}
	n := 0
	for _, g := range graphs {
		for typed := 0; typed <= 2; typed++ {
			var log []C17Ev
			for ty := 0; ty <= 6; ty++ {
				log = append(log, C17Ev{Type: ty, V: ty})
			}
			if typed > 0 {
				log = append(log, C17Ev{Type: 100, V: 4}, C17Ev{Type: 100, V: 3, Bad: true}, C17Ev{Type: 101, V: 5}, C17Ev{Type: 100, V: 9})
			}
			for failAt := -1; failAt <= 14; failAt++ {
				for _, eh := range []bool{true, false} {
					for _, sub := range []bool{false, true} {
						if sub && typed != 2 {
							continue
						}
						n++
						yield(&C17Scenario{Edges: g, Typed: typed, Log: log, FailAt: failAt, ErrHandler: eh, Subscribe: sub, Store: StoreCfg{Kind: "mem"}})
					}
				}
			}
		}
	}
	return fmt.Sprintf("%d cases: 7 hand-picked acyclic graphs x typed family none/UA->UB/UA->UB->UC x a log with one event of every type x a failure injected at every upcaster application index 0..14 (and none) x with/without error handler (x SubscribeWithReplay for the full typed family)", n)
}

var propC17 = &core.Property{ID: "C17", Gen: genC17, New: func() core.Scenario { return &C17Scenario{} }, Explicit: c17Grid}

func TestC17(t *testing.T) { core.RunProperty(t, propC17) }
