package props

import (
	"context"
	"fmt"
	"testing"
	"time"

	"pgregory.net/rapid"

	"ebusim/core"
	"simshim/simrt"
)

// C04 — a Once handler fires at most once, and exactly once when eligible.

type C04Reg struct {
	Type int     `json:"type"`
	Fn   int     `json:"fn"`
	Opts SubOpts `json:"opts"`
}

type C04Pub struct {
	Type int  `json:"type"`
	ID   int  `json:"id"`
	Dead bool `json:"dead,omitempty"` // context cancelled before PublishContext is called
	// Expired (with Dead): the context is dead because its deadline has passed (Err() is DeadlineExceeded, not Canceled)
	Expired bool `json:"expired,omitempty"`
	Bg   bool `json:"bg,omitempty"`   // use Publish (background context) instead of PublishContext
	Any  bool `json:"any,omitempty"`  // published through an interface-typed value (Publish[any]): same event, dynamic-type dispatch
	// FMid (only with FilterCancel, first registration's type): the publish context is cancelled from inside the
	// FIRST filter evaluated for it - the accept-all predicate of the extra Once handler subscribed before all
	// others. Nothing has run yet, so nothing may run and no Once handler is used up - that one least of all.
	FMid bool `json:"fmid,omitempty"`
	Mid  bool `json:"mid,omitempty"`  // (only with a canceller) the canceller cancels this publish's context before any other handler's turn
}

type C04Scenario struct {
	core.Base
	Regs   []C04Reg   `json:"regs"`
	Pubs   [][]C04Pub `json:"pubs"` // one list per publisher task
	Yields int        `json:"yields"`
	// Canceller: a synchronous ordinary handler subscribed FIRST on every type; for publishes marked Mid
	// it cancels the publish context, so every handler after it is skipped "because the context is
	// already cancelled" - which must not use up a Once handler.
	Canceller bool `json:"canceller,omitempty"`
	// Panics: every Once handler panics at the end of its (single) invocation; the bus recovers it, and the
	// handler stays used up - for concurrent publishers that took their snapshot before, too.
	Panics bool `json:"panics,omitempty"`
	// ShareOpts: the option values (Once(), Async(), Sequential()) are created once and reused by all subscriptions
	ShareOpts bool `json:"share_opts,omitempty"`
	// SelfUnsub: an extra Once handler with a function of its own, subscribed before all others on the first
	// registration's type, unsubscribes itself from inside its invocation. It is gone afterwards either way;
	// the other Once handlers fired by the same publish must still be retired.
	SelfUnsub bool `json:"self_unsub,omitempty"`
	// LateSubs: a further task subscribes these handlers WHILE the publishers run, one per entry (the entry is
	// the event type). Each carries a filter that accepts nothing, so none is ever eligible (even entries are
	// Once handlers, odd ones ordinary): all stay subscribed - and none of the earlier Once handlers may be
	// lost or kept because the registry grew between a publish's snapshot and its removal step.
	LateSubs []int `json:"late_subs,omitempty"`
	// FilterCancel: see C04Pub.FMid
	FilterCancel bool `json:"filter_cancel,omitempty"`
}

func genC04(rt *rapid.T) core.Scenario {
	sc := &C04Scenario{}
	nTypes := rapid.IntRange(1, 2).Draw(rt, "nTypes")
	types := make([]int, nTypes)
	for i := range types {
		types[i] = rapid.IntRange(0, len(allTypes)-1).Draw(rt, "type")
		if i == 1 && types[1] == types[0] {
			types[1] = (types[0] + 1) % len(allTypes)
		}
	}
	nRegs := rapid.IntRange(1, 5).Draw(rt, "nRegs")
	for i := 0; i < nRegs; i++ {
		ti := types[rapid.IntRange(0, nTypes-1).Draw(rt, "regType")]
		// few functions, so several registrations are closures of the same function literal
		// (same code pointer, as handlers built by a factory in user code)
		fn := rapid.SampledFrom([]int{0, 0, 1, numSites, numSites + 1}).Draw(rt, "fn")
		o := SubOpts{
			Once:   i == 0 || rapid.IntRange(0, 2).Draw(rt, "once") > 0,
			Async:  rapid.Bool().Draw(rt, "async"),
			Seq:    rapid.IntRange(0, 4).Draw(rt, "seq") == 4,
			Filter: rapid.SampledFrom([]int{0, 0, 1, 2, 3, 4, 11, 12, 14}).Draw(rt, "filter"),
		}
		sc.Regs = append(sc.Regs, C04Reg{Type: ti, Fn: fn, Opts: o})
	}
	nPub := rapid.IntRange(1, 4).Draw(rt, "nPublishers")
	id := 0
	for p := 0; p < nPub; p++ {
		n := rapid.IntRange(1, 4).Draw(rt, "nPubs")
		var l []C04Pub
		for j := 0; j < n; j++ {
			id++
			l = append(l, C04Pub{
				Type: types[rapid.IntRange(0, nTypes-1).Draw(rt, "pubType")],
				ID:   id*6 + rapid.IntRange(0, 5).Draw(rt, "idRes"), // unique, residue free for the filters
				Dead: rapid.IntRange(0, 2).Draw(rt, "dead") == 2,
				Bg:   rapid.Bool().Draw(rt, "bg"),
				Any:  rapid.IntRange(0, 3).Draw(rt, "any") == 3,
			})
			if l[len(l)-1].Dead {
				l[len(l)-1].Expired = rapid.Bool().Draw(rt, "expired")
			}
		}
		sc.Pubs = append(sc.Pubs, l)
	}
	sc.Yields = rapid.IntRange(0, 2).Draw(rt, "yields")
	if rapid.IntRange(0, 3).Draw(rt, "canceller") == 3 {
		sc.Canceller = true
		for i := range sc.Pubs {
			for j := range sc.Pubs[i] {
				if !sc.Pubs[i][j].Dead && rapid.IntRange(0, 1).Draw(rt, "mid") == 1 {
					sc.Pubs[i][j].Mid, sc.Pubs[i][j].Bg = true, false
				}
			}
		}
	}
	sc.Panics = rapid.IntRange(0, 3).Draw(rt, "panics") == 3
	sc.ShareOpts = rapid.IntRange(0, 2).Draw(rt, "shareOpts") == 2
	sc.SelfUnsub = rapid.IntRange(0, 3).Draw(rt, "selfUnsub") == 3
	if rapid.IntRange(0, 3).Draw(rt, "filterCancel") == 3 {
		sc.FilterCancel = true
		for i := range sc.Pubs {
			for j := range sc.Pubs[i] {
				if p := &sc.Pubs[i][j]; p.Type == sc.Regs[0].Type && !p.Dead && !p.Mid && rapid.IntRange(0, 1).Draw(rt, "fmid") == 1 {
					p.FMid, p.Bg, p.Any = true, false, false
				}
			}
		}
	}
	if rapid.IntRange(0, 2).Draw(rt, "late") == 2 {
		for n := rapid.IntRange(1, 3).Draw(rt, "nLate"); n > 0; n-- {
			sc.LateSubs = append(sc.LateSubs, types[rapid.IntRange(0, nTypes-1).Draw(rt, "lateType")])
		}
	}
	sc.Tape = core.DrawTape(rt, 300)
	return sc
}

func (sc *C04Scenario) regName(i int) string {
	r := sc.Regs[i]
	return fmt.Sprintf("#%d(E%02d/f%d %+v)", i, r.Type, r.Fn, r.Opts)
}

func (sc *C04Scenario) Execute(t *testing.T) *core.Outcome {
	out := &core.Outcome{}
	var w *World
	inv := map[int][]int{} // regKey -> event ids it was invoked with
	selfUnsubRuns := 0
	var fcRuns []int // events the filter-cancelling Once handler was invoked with
	fcCancelled := map[int]bool{} // FMid publishes whose context that handler's filter did cancel (it was still subscribed)
	var selfUnsubErr error
	body := func() {
		w = NewWorld()
		w.ShareOptions = sc.ShareOpts
		cancelFn := map[int]context.CancelFunc{}
		fmid := map[int]bool{}
		w.OnInvoke = func(ti, fn, uid int, ctx context.Context, id int) {
			if uid == 9001 { // the self-unsubscribing Once handler
				selfUnsubRuns++
				if err := allTypes[ti].Unsub(w, fn); err != nil {
					selfUnsubErr = err
				}
				return
			}
			if uid == 9002 { // the Once handler whose filter cancels FMid publishes
				fcRuns = append(fcRuns, id)
				w.Rec.Add("enter", 9002, id, "")
				return
			}
			if uid == 9000 { // the canceller
				if c := cancelFn[id]; c != nil && !fmid[id] {
					c()
				}
				return
			}
			k := uid
			w.Rec.Add("enter", k, id, "")
			inv[k] = append(inv[k], id)
			for i := 0; i < sc.Yields; i++ {
				simrt.Yield(siteHandler)
			}
			w.Rec.Add("exit", k, id, "")
			if sc.Panics && k < len(sc.Regs) && sc.Regs[k].Opts.Once && !simrt.Dying() {
				panic(fmt.Sprintf("once handler %d panics", k))
			}
		}
		if sc.FilterCancel {
			w.OnFilter = func(ti, fn, id int, accepted bool) {
				if fn == numSites-4 {
					if c := cancelFn[id]; c != nil && fmid[id] {
						w.Rec.Add("filter-cancels", id, 0, "")
						fcCancelled[id] = true
						c()
					}
				}
			}
			if err := w.SubscribeUID(sc.Regs[0].Type, numSites-4, 9002, SubOpts{Once: true, Filter: 5}); err != nil {
				out.HarnessErr = err.Error()
				return
			}
		}
		if sc.SelfUnsub {
			if err := w.SubscribeUID(sc.Regs[0].Type, numSites-2, 9001, SubOpts{Once: true}); err != nil {
				out.HarnessErr = err.Error()
				return
			}
		}
		if sc.Canceller {
			seenT := map[int]bool{}
			for _, r := range sc.Regs {
				if !seenT[r.Type] {
					seenT[r.Type] = true
					if err := w.SubscribeUID(r.Type, numSites-1, 9000, SubOpts{}); err != nil {
						out.HarnessErr = err.Error()
						return
					}
				}
			}
		}
		for i, r := range sc.Regs {
			if err := w.SubscribeUID(r.Type, r.Fn, i, r.Opts); err != nil {
				out.HarnessErr = "subscribe: " + err.Error()
				return
			}
		}
		// concurrent phase
		var tasks []*simrt.Task
		for pi, l := range sc.Pubs {
			l := l
			tasks = append(tasks, simrt.GoNamed(fmt.Sprintf("pub%d", pi), func() {
				for _, p := range l {
					w.Rec.Add("pub-call", p.Type, p.ID, "")
					switch {
					case p.Mid, p.FMid:
						ctx, cancel := context.WithCancel(context.Background())
						cancelFn[p.ID] = cancel
						fmid[p.ID] = p.FMid
						allTypes[p.Type].Pub(w, ctx, p.ID)
					case p.Dead && p.Expired:
						ctx, cancel := context.WithDeadline(context.Background(), time.Now().Add(-time.Second))
						allTypes[p.Type].Pub(w, ctx, p.ID)
						cancel()
					case p.Dead:
						ctx, cancel := context.WithCancel(context.Background())
						cancel()
						allTypes[p.Type].Pub(w, ctx, p.ID)
					case p.Any:
						allTypes[p.Type].PubAny(w, context.Background(), p.ID)
					case p.Bg:
						allTypes[p.Type].Pub(w, nil, p.ID)
					default:
						allTypes[p.Type].Pub(w, context.Background(), p.ID)
					}
					w.Rec.Add("pub-ret", p.Type, p.ID, "")
				}
			}))
		}
		var lateErr error
		if len(sc.LateSubs) > 0 {
			tasks = append(tasks, simrt.GoNamed("latesub", func() {
				for j, ti := range sc.LateSubs {
					simrt.Yield(siteHandler)
					if err := w.SubscribeUID(ti, numSites-3, 8000+j, SubOpts{Once: j%2 == 0, Filter: 3}); err != nil {
						lateErr = err
					}
				}
			}))
		}
		simrt.Join(tasks...)
		w.Bus.Wait()
		w.Rec.Add("quiescent", 0, 0, "")
		if lateErr != nil {
			out.HarnessErr = "late subscribe: " + lateErr.Error()
			return
		}

		// ---- oracle, phase 1
		eligible := func(r C04Reg) []int {
			var e []int
			for _, l := range sc.Pubs {
				for _, p := range l {
					if p.Type == r.Type && !p.Dead && !p.Mid && !fcCancelled[p.ID] && filterAccepts(r.Opts.Filter, p.ID) {
						e = append(e, p.ID)
					}
				}
			}
			return e
		}
		dead := 0
		for _, l := range sc.Pubs {
			for _, p := range l {
				if p.Dead || p.Mid || fcCancelled[p.ID] {
					dead++
				}
			}
		}
		fired := map[int]bool{}
		expectCount := map[int]int{}
		for j, ti := range sc.LateSubs {
			expectCount[ti]++
			if len(inv[8000+j]) > 0 {
				out.V("once-fired-ineligible", "late handler %d (filter accepts nothing) ran for %v", j, inv[8000+j])
			}
		}
		for k, r := range sc.Regs {
			e := eligible(r)
			got := inv[k]
			if !r.Opts.Once {
				expectCount[r.Type]++
				if len(got) != len(e) {
					out.V("delivery-count", "ordinary handler %s received %v, eligible publishes were %v", sc.regName(k), got, e)
				}
				continue
			}
			if len(got) > 1 {
				out.V("once-fired-twice", "once handler %s invoked %d times (events %v)", sc.regName(k), len(got), got)
			}
			if len(e) > 0 {
				if len(got) == 0 {
					out.V("once-eligible-not-fired", "once handler %s never ran although eligible publishes %v happened while it was subscribed (dead publishes in run: %d)", sc.regName(k), e, dead)
				}
				fired[k] = true
			} else {
				if len(got) != 0 {
					out.V("once-fired-ineligible", "once handler %s ran for %v although no publish was eligible", sc.regName(k), got)
				}
				expectCount[r.Type]++
			}
			for _, id := range got {
				ok := false
				for _, x := range e {
					ok = ok || x == id
				}
				if !ok {
					out.V("once-fired-ineligible", "once handler %s ran for event %d which is not an eligible publish", sc.regName(k), id)
				}
			}
		}
		extra := 0
		if sc.Canceller {
			extra = 1
		}
		if selfUnsubRuns > 1 {
			out.V("once-fired-twice", "the self-unsubscribing once handler ran %d times", selfUnsubRuns)
		}
		// (whether Unsubscribe still finds the running Once handler - claimed, about to be retired - is left
		// open: nil and "not found" are both accepted; what counts is that it is gone afterwards)
		_ = selfUnsubErr
		// the filter-cancelling Once handler: eligible for every publish of its type that is neither dead on arrival
		// nor cancelled by its own filter (it comes first, so a canceller's publish reaches it while still live)
		fcEligible := 0
		for _, l := range sc.Pubs {
			for _, p := range l {
				if sc.FilterCancel && p.Type == sc.Regs[0].Type && !p.Dead && !p.FMid {
					fcEligible++ // (an FMid publish is one it cancels itself, if it is still there)
				}
			}
		}
		if sc.FilterCancel {
			if len(fcRuns) > 1 {
				out.V("once-fired-twice", "the Once handler whose filter cancels publishes ran %d times (%v)", len(fcRuns), fcRuns)
			}
			for _, id := range fcRuns {
				if fcCancelled[id] {
					out.V("once-fired-ineligible", "a Once handler ran for event %d although its own filter had cancelled that publish before anything ran", id)
				}
			}
			if fcEligible > 0 && len(fcRuns) == 0 {
				out.V("once-eligible-not-fired", "the Once handler whose filter cancels some publishes never ran although %d publishes it was eligible for happened (a publish cancelled during its filter must not use it up)", fcEligible)
			}
		}
		selfLeft := func(ti int) int {
			n := 0
			if sc.SelfUnsub && selfUnsubRuns == 0 && ti == sc.Regs[0].Type {
				n++ // not reached by a live publish so far: still registered (on the first registration's type)
			}
			if sc.FilterCancel && len(fcRuns) == 0 && ti == sc.Regs[0].Type {
				n++
			}
			return n
		}
		seenT := map[int]bool{}
		for _, r := range sc.Regs {
			if seenT[r.Type] {
				continue
			}
			seenT[r.Type] = true
			if c := allTypes[r.Type].Count(w) - extra - selfLeft(r.Type); c != expectCount[r.Type] {
				out.V("once-count-after-quiescence", "HandlerCount(E%02d)=%d after the concurrent phase, expected %d (ordinary handlers + once handlers that had no eligible publish; dead publishes in run: %d)", r.Type, c, expectCount[r.Type], dead)
			}
		}
		if len(out.Violations) > 0 {
			return
		}
		// ---- probe phase: every once handler that has not fired must still fire for an eligible event
		nextID := 100000
		for k, r := range sc.Regs {
			if !r.Opts.Once || fired[k] || r.Opts.Filter%10 == 3 {
				continue
			}
			nextID += 6
			id := nextID // multiple of 6: accepted by filters 0,1,4
			if r.Opts.Filter%10 == 2 {
				id++
			}
			before := map[int]int{}
			for qk := range sc.Regs {
				before[qk] = len(inv[qk])
			}
			w.Rec.Add("probe", r.Type, id, "")
			allTypes[r.Type].Pub(w, context.Background(), id)
			w.Bus.Wait()
			for qk, q := range sc.Regs {
				want := 0
				if q.Type == r.Type && filterAccepts(q.Opts.Filter, id) && !(q.Opts.Once && fired[qk]) {
					want = 1
				}
				if d := len(inv[qk]) - before[qk]; d != want {
					out.V("once-probe", "after the concurrent phase, publishing eligible event %d: handler %s invoked %d times, expected %d", id, sc.regName(qk), d, want)
				}
				if want == 1 && q.Opts.Once {
					fired[qk] = true
					expectCount[q.Type]--
				}
			}
		}
		seenT = map[int]bool{}
		for _, r := range sc.Regs {
			if seenT[r.Type] {
				continue
			}
			seenT[r.Type] = true
			if c := allTypes[r.Type].Count(w) - extra - selfLeft(r.Type); c != expectCount[r.Type] {
				out.V("once-count-final", "HandlerCount(E%02d)=%d at the end, expected %d", r.Type, c, expectCount[r.Type])
			}
			if h := allTypes[r.Type].Has(w); h != (expectCount[r.Type]+extra+selfLeft(r.Type) > 0) {
				out.V("once-count-final", "HasHandlers(E%02d)=%v at the end, expected count %d", r.Type, h, expectCount[r.Type])
			}
		}
	}
	rep, herr := core.Sim(t, &sc.Base, nil, body)
	out.Rep = rep
	if herr != "" && out.HarnessErr == "" {
		out.HarnessErr = herr
	}
	if rep != nil {
		if rep.Deadlock {
			out.V("deadlock", "%s", rep.DeadlockInfo)
		}
		if rep.BudgetExceeded {
			out.HarnessErr = "step budget exceeded"
		}
		for _, p := range rep.Panics {
			out.V("escaped-panic", "%s: %s\n%s", p.Task, p.Value, p.Stack)
		}
		out.Nontrivial = rep.Choices > 0
	}
	if w != nil {
		out.LogHash = w.Rec.Hash()
	}
	nd := 0
	for _, l := range sc.Pubs {
		for _, p := range l {
			if p.Dead {
				nd++
			}
		}
	}
	if nd > 0 {
		out.Fault("publish-with-cancelled-context")
	}
	out.Summary = fmt.Sprintf("%d regs, %d publishers, %d dead publishes", len(sc.Regs), len(sc.Pubs), nd)
	return out
}

var propC04 = &core.Property{ID: "C04", Gen: genC04, New: func() core.Scenario { return &C04Scenario{} }}

func TestC04(t *testing.T) { core.RunProperty(t, propC04) }
