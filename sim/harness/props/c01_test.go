package props

import (
	"context"
	"fmt"
	"sort"
	"strings"
	"testing"

	"pgregory.net/rapid"

	"ebusim/core"
	"simshim/simrt"
)

// C01 — publish reaches exactly the subscribed handlers, once each, in order;
// registry operations and queries agree with a reference registry, also re-entrantly.

type C01Op struct {
	Kind string  `json:"kind"` // sub unsub clear clearall pub has count
	Type int     `json:"type"`
	Fn   int     `json:"fn,omitempty"`
	Opts SubOpts `json:"opts,omitempty"`
	ID   int     `json:"id,omitempty"`
	Bg   bool    `json:"bg,omitempty"` // Publish instead of PublishContext
	Any  bool    `json:"any,omitempty"` // publish through an interface-typed value (T = any): reflection dispatch path
}

// C01Script: what function (Type,Fn) does on its K-th synchronous invocation.
type C01Script struct {
	Type int     `json:"type"`
	Fn   int     `json:"fn"`
	K    int     `json:"k"`
	Ops  []C01Op `json:"ops"`
}

type C01Scenario struct {
	core.Base
	ShareOpts bool `json:"share_opts,omitempty"` // option values created once and reused by all subscriptions (see World.ShareOptions)
	Pool    []int       `json:"pool"` // event types whose counts are checked after every operation
	Ops     []C01Op     `json:"ops"`
	Scripts []C01Script `json:"scripts"`
}

const c01Fns = 3 // functions per type used here: fn 0..2 plain, numSites..numSites+2 context-aware

func c01Fn(n int) int {
	if n >= c01Fns {
		return numSites + n - c01Fns
	}
	return n
}

func genC01(rt *rapid.T) core.Scenario {
	sc := &C01Scenario{}
	poolSize := rapid.SampledFrom([]int{1, 2, 3, 6, 40}).Draw(rt, "poolSize")
	perm := rapid.Permutation(intRange(len(allTypes))).Draw(rt, "perm")
	sc.Pool = append(sc.Pool, perm[:poolSize]...)
	sort.Ints(sc.Pool)
	active := sc.Pool
	if poolSize == 40 {
		active = perm[:4] // most operations on a few types, counts checked on all 40
	}
	pubbers := map[[2]int]bool{} // functions whose scripts publish: never subscribed Sequential+sync (self-overlap exception)
	seqFns := map[[2]int]bool{}
	drawType := func(l string) int { return active[rapid.IntRange(0, len(active)-1).Draw(rt, l)] }
	id := 0
	var drawOp func(l string, inner bool) C01Op
	drawOp = func(l string, inner bool) C01Op {
		kinds := []string{"sub", "sub", "sub", "unsub", "clear", "clearall", "pub", "pub", "pub", "pub", "count", "has"}
		k := rapid.SampledFrom(kinds).Draw(rt, l+"Kind")
		op := C01Op{Kind: k}
		switch k {
		case "sub":
			op.Type = drawType(l + "T")
			op.Fn = c01Fn(rapid.IntRange(0, 2*c01Fns-1).Draw(rt, l+"Fn"))
			op.Opts = SubOpts{
				Once:   rapid.IntRange(0, 3).Draw(rt, l+"Once") == 3,
				Async:  rapid.IntRange(0, 4).Draw(rt, l+"Async") == 4,
				Seq:    rapid.IntRange(0, 4).Draw(rt, l+"Seq") == 4,
				Filter: rapid.SampledFrom([]int{0, 0, 0, 1, 2, 3, 4, 11, 12, 14}).Draw(rt, l+"Filter"),
			}
		case "unsub":
			op.Type = drawType(l + "T")
			op.Fn = c01Fn(rapid.IntRange(0, 2*c01Fns-1).Draw(rt, l+"Fn"))
		case "clear", "count", "has":
			op.Type = drawType(l + "T")
		case "pub":
			op.Type = drawType(l + "T")
			id++
			op.ID = id*6 + rapid.IntRange(0, 5).Draw(rt, l+"Res")
			op.Bg = rapid.Bool().Draw(rt, l+"Bg")
			op.Any = rapid.IntRange(0, 5).Draw(rt, l+"Any") == 5
		}
		return op
	}
	nOps := rapid.IntRange(1, 30).Draw(rt, "nOps")
	var subbed [][2]int
	if rapid.IntRange(0, 7).Draw(rt, "crowd") == 7 {
		// a crowd: 9-20 registrations on ONE type before anything else (most of them Once, some filtered), so that
		// many Once handlers fire in one publish, handler lists grow past their small initial capacities, and the
		// unsubscribes that follow shrink them again
		ty := active[0]
		k := rapid.IntRange(9, 20).Draw(rt, "crowdSize")
		for i := 0; i < k; i++ {
			op := C01Op{Kind: "sub", Type: ty, Fn: c01Fn(rapid.IntRange(0, 2*c01Fns-1).Draw(rt, "cFn")), Opts: SubOpts{
				Once:   rapid.IntRange(0, 3).Draw(rt, "cOnce") > 0,
				Filter: rapid.SampledFrom([]int{0, 0, 0, 1, 2}).Draw(rt, "cFilter"),
			}}
			subbed = append(subbed, [2]int{op.Type, op.Fn})
			sc.Ops = append(sc.Ops, op)
		}
		for i := rapid.IntRange(0, 8).Draw(rt, "crowdUnsubs"); i > 0; i-- {
			sc.Ops = append(sc.Ops, C01Op{Kind: "unsub", Type: ty, Fn: c01Fn(rapid.IntRange(0, 2*c01Fns-1).Draw(rt, "cuFn"))})
		}
		id++
		sc.Ops = append(sc.Ops, C01Op{Kind: "pub", Type: ty, ID: id*6 + rapid.IntRange(0, 5).Draw(rt, "cRes")}, C01Op{Kind: "count", Type: ty})
	}
	for i := 0; i < nOps; i++ {
		op := drawOp("o", false)
		if op.Kind == "sub" {
			subbed = append(subbed, [2]int{op.Type, op.Fn})
		}
		sc.Ops = append(sc.Ops, op)
	}
	// scripts: mostly for functions that are actually subscribed somewhere in the sequence
	nScripts := rapid.IntRange(0, 5).Draw(rt, "nScripts")
	have := map[[3]int]bool{}
	for i := 0; i < nScripts; i++ {
		s := C01Script{Type: drawType("sT"), Fn: c01Fn(rapid.IntRange(0, 2*c01Fns-1).Draw(rt, "sFn")), K: rapid.IntRange(0, 1).Draw(rt, "sK")}
		if len(subbed) > 0 && rapid.IntRange(0, 4).Draw(rt, "sTarget") > 0 {
			tf := subbed[rapid.IntRange(0, len(subbed)-1).Draw(rt, "sSub")]
			s.Type, s.Fn = tf[0], tf[1]
		}
		if have[[3]int{s.Type, s.Fn, s.K}] {
			continue
		}
		have[[3]int{s.Type, s.Fn, s.K}] = true
		n := rapid.IntRange(1, 3).Draw(rt, "sLen")
		for j := 0; j < n; j++ {
			op := drawOp("s", true)
			if op.Kind == "pub" {
				pubbers[[2]int{s.Type, s.Fn}] = true
			}
			s.Ops = append(s.Ops, op)
		}
		sc.Scripts = append(sc.Scripts, s)
	}
	// Sequential exception: a synchronous Sequential handler must not publish (it could be delivered back to itself).
	fix := func(op *C01Op) {
		if op.Kind == "sub" && op.Opts.Seq && !op.Opts.Async && pubbers[[2]int{op.Type, op.Fn}] {
			op.Opts.Seq = false
		}
		if op.Kind == "sub" && op.Opts.Seq {
			seqFns[[2]int{op.Type, op.Fn}] = true
		}
	}
	for i := range sc.Ops {
		fix(&sc.Ops[i])
	}
	for i := range sc.Scripts {
		for j := range sc.Scripts[i].Ops {
			fix(&sc.Scripts[i].Ops[j])
		}
	}
	sc.ShareOpts = rapid.IntRange(0, 2).Draw(rt, "shareOpts") == 2
	sc.Tape = core.DrawTape(rt, 200)
	return sc
}

func intRange(n int) []int {
	r := make([]int, n)
	for i := range r {
		r[i] = i
	}
	return r
}

// ---- observations of one top-level operation, produced by the model and by the real run

type c01Inner struct {
	What   string // "unsub E03/f1", "count E03", "has E03"
	Lo, Hi int    // for unsub: 1 = error, 0 = nil
}

type c01Obs struct {
	Sync  []string       // synchronous invocations in order: "E03/f1:17"
	Async map[string]int // asynchronous invocations (multiset)
	Inner []c01Inner     // results of Unsubscribe / HandlerCount / HasHandlers in execution order
	Count map[int]int    // HandlerCount of every pool type after the operation (and Wait)
}

func newObs() *c01Obs { return &c01Obs{Async: map[string]int{}, Count: map[int]int{}} }

func invName(ti, fn, uid, id int) string { return fmt.Sprintf("E%02d/f%d#%d:%d", ti, fn, uid, id) }

// ---- reference registry

type m1Reg struct {
	uid      int
	fn       int
	opts     SubOpts
	executed bool
}

type m1 struct {
	regs      map[int][]*m1Reg
	scripts   map[[3]int][]C01Op
	calls     map[[2]int]int
	choices   []int
	choiceIx  int
	ambiguous []int // number of candidates at each ambiguous Unsubscribe
	ambOp     []int      // top-level operation during which each of them happens
	ambCand   [][]string // invocation-name prefixes ("E00/f1#7:") of the candidates, in registry order
	curOp     int
	obs       *c01Obs
	budget    int
	nextUID   int
}

func (m *m1) countRange(ti int) (lo, hi int) {
	for _, r := range m.regs[ti] {
		hi++
		if !(r.opts.Once && r.executed) {
			lo++
		}
	}
	return
}

func (m *m1) apply(op C01Op) {
	m.budget--
	if m.budget < 0 {
		return
	}
	switch op.Kind {
	case "sub":
		m.regs[op.Type] = append(m.regs[op.Type], &m1Reg{uid: m.nextUID, fn: op.Fn, opts: op.Opts})
		m.nextUID++
	case "unsub":
		var idx []int
		for i, r := range m.regs[op.Type] {
			if r.fn == op.Fn {
				idx = append(idx, i)
			}
		}
		if len(idx) == 0 {
			m.obs.Inner = append(m.obs.Inner, c01Inner{fmt.Sprintf("unsub E%02d/f%d", op.Type, op.Fn), 1, 1})
			return
		}
		pick := 0
		if len(idx) > 1 {
			// The property says "exactly one registration of the given handler" without saying which:
			// every choice is tried before a mismatch is reported.
			if m.choiceIx < len(m.choices) {
				pick = m.choices[m.choiceIx] % len(idx)
			}
			m.choiceIx++
			m.ambiguous = append(m.ambiguous, len(idx))
			m.ambOp = append(m.ambOp, m.curOp)
			var cand []string
			for _, j := range idx {
				r := m.regs[op.Type][j]
				cand = append(cand, strings.SplitAfter(invName(op.Type, r.fn, r.uid, 0), ":")[0])
			}
			m.ambCand = append(m.ambCand, cand)
		}
		i := idx[pick]
		l := m.regs[op.Type]
		m.regs[op.Type] = append(append([]*m1Reg{}, l[:i]...), l[i+1:]...)
		// A Once registration that a publish in progress has already claimed is on its way out ("no longer
		// counted as subscribed afterwards" does not say whether it still is during that publish - HandlerCount
		// is given the same latitude above): if the function has no other registration, "not found" is as good
		// an answer as success.
		hi := 1
		for _, j := range idx {
			if r := l[j]; !(r.opts.Once && r.executed) {
				hi = 0
			}
		}
		m.obs.Inner = append(m.obs.Inner, c01Inner{fmt.Sprintf("unsub E%02d/f%d", op.Type, op.Fn), 0, hi})
	case "clear":
		delete(m.regs, op.Type)
	case "clearall":
		m.regs = map[int][]*m1Reg{}
	case "count":
		lo, hi := m.countRange(op.Type)
		m.obs.Inner = append(m.obs.Inner, c01Inner{fmt.Sprintf("count E%02d", op.Type), lo, hi})
	case "has":
		lo, hi := m.countRange(op.Type)
		l, h := 0, 0
		if lo > 0 {
			l = 1
		}
		if hi > 0 {
			h = 1
		}
		m.obs.Inner = append(m.obs.Inner, c01Inner{fmt.Sprintf("has E%02d", op.Type), l, h})
	case "pub":
		snapshot := append([]*m1Reg{}, m.regs[op.Type]...)
		var claimed []*m1Reg
		for _, r := range snapshot {
			if !filterAccepts(r.opts.Filter, op.ID) {
				continue
			}
			if r.opts.Once {
				if r.executed {
					continue
				}
				r.executed = true
				claimed = append(claimed, r)
			}
			if r.opts.Async {
				m.obs.Async[invName(op.Type, r.fn, r.uid, op.ID)]++
				continue
			}
			m.obs.Sync = append(m.obs.Sync, invName(op.Type, r.fn, r.uid, op.ID))
			k := m.calls[[2]int{op.Type, r.fn}]
			m.calls[[2]int{op.Type, r.fn}] = k + 1
			for _, sop := range m.scripts[[3]int{op.Type, r.fn, k}] {
				m.apply(sop)
			}
		}
		for _, c := range claimed {
			l := m.regs[op.Type]
			for i, r := range l {
				if r == c {
					m.regs[op.Type] = append(append([]*m1Reg{}, l[:i]...), l[i+1:]...)
					break
				}
			}
		}
	}
}

func (sc *C01Scenario) scriptMap() map[[3]int][]C01Op {
	m := map[[3]int][]C01Op{}
	for _, s := range sc.Scripts {
		m[[3]int{s.Type, s.Fn, s.K}] = s.Ops
	}
	return m
}

// runModel returns the expected observation per top-level operation.
func (sc *C01Scenario) runModel(choices []int) ([]*c01Obs, []int) {
	all, m := sc.runModelFull(choices)
	return all, m.ambiguous
}

func (sc *C01Scenario) runModelFull(choices []int) ([]*c01Obs, *m1) {
	m := &m1{regs: map[int][]*m1Reg{}, scripts: sc.scriptMap(), calls: map[[2]int]int{}, choices: choices, budget: 5000}
	var all []*c01Obs
	for i, op := range sc.Ops {
		m.curOp = i
		m.obs = newObs()
		m.apply(op)
		for _, ti := range sc.Pool {
			lo, _ := m.countRange(ti)
			m.obs.Count[ti] = lo
		}
		all = append(all, m.obs)
	}
	return all, m
}

func c01Compare(i int, op C01Op, want, got *c01Obs) string {
	if strings.Join(want.Sync, " ") != strings.Join(got.Sync, " ") {
		return fmt.Sprintf("op %d (%s E%02d id=%d): synchronous invocations [%s], expected [%s]", i, op.Kind, op.Type, op.ID, strings.Join(got.Sync, " "), strings.Join(want.Sync, " "))
	}
	keys := map[string]bool{}
	for k := range want.Async {
		keys[k] = true
	}
	for k := range got.Async {
		keys[k] = true
	}
	for k := range keys {
		if want.Async[k] != got.Async[k] {
			return fmt.Sprintf("op %d (%s E%02d id=%d): asynchronous invocation %s happened %d times, expected %d", i, op.Kind, op.Type, op.ID, k, got.Async[k], want.Async[k])
		}
	}
	if len(want.Inner) != len(got.Inner) {
		return fmt.Sprintf("op %d (%s): %d query/unsubscribe results observed, expected %d (%v vs %v)", i, op.Kind, len(got.Inner), len(want.Inner), got.Inner, want.Inner)
	}
	for j := range want.Inner {
		w, g := want.Inner[j], got.Inner[j]
		if w.What != g.What || g.Lo < w.Lo || g.Lo > w.Hi {
			return fmt.Sprintf("op %d (%s E%02d): %s returned %d, expected %d..%d", i, op.Kind, op.Type, g.What, g.Lo, w.Lo, w.Hi)
		}
	}
	for ti, c := range want.Count {
		if got.Count[ti] != c {
			return fmt.Sprintf("after op %d (%s E%02d fn=%d id=%d): HandlerCount(E%02d)=%d, expected %d", i, op.Kind, op.Type, op.Fn, op.ID, ti, got.Count[ti], c)
		}
	}
	return ""
}

func (sc *C01Scenario) Execute(t *testing.T) *core.Outcome {
	out := &core.Outcome{}
	var w *World
	var actual []*c01Obs
	reentrant := 0
	body := func() {
		w = NewWorld()
		w.ShareOptions = sc.ShareOpts
		client := simrt.Current()
		scripts := sc.scriptMap()
		calls := map[[2]int]int{}
		var cur *c01Obs
		budget := 5000
		nextUID := 0
		var exec func(op C01Op)
		exec = func(op C01Op) {
			budget--
			if budget < 0 {
				return
			}
			switch op.Kind {
			case "sub":
				if err := w.SubscribeUID(op.Type, op.Fn, nextUID, op.Opts); err != nil {
					out.HarnessErr = "subscribe: " + err.Error()
				}
				nextUID++
			case "unsub":
				e := 0
				if allTypes[op.Type].Unsub(w, op.Fn) != nil {
					e = 1
				}
				cur.Inner = append(cur.Inner, c01Inner{fmt.Sprintf("unsub E%02d/f%d", op.Type, op.Fn), e, e})
			case "clear":
				allTypes[op.Type].Clear(w)
			case "clearall":
				clearAll(w)
			case "count":
				c := allTypes[op.Type].Count(w)
				cur.Inner = append(cur.Inner, c01Inner{fmt.Sprintf("count E%02d", op.Type), c, c})
			case "has":
				c := 0
				if allTypes[op.Type].Has(w) {
					c = 1
				}
				cur.Inner = append(cur.Inner, c01Inner{fmt.Sprintf("has E%02d", op.Type), c, c})
			case "pub":
				pub := allTypes[op.Type].Pub
				if op.Any {
					pub = allTypes[op.Type].PubAny
				}
				if op.Bg {
					pub(w, nil, op.ID)
				} else {
					pub(w, context.Background(), op.ID)
				}
			}
		}
		w.OnInvoke = func(ti, fn, uid int, ctx context.Context, id int) {
			w.Rec.Add("enter", regKey(ti, fn), id, "")
			if simrt.Current() != client {
				cur.Async[invName(ti, fn, uid, id)]++
				simrt.Yield(siteHandler)
				return
			}
			cur.Sync = append(cur.Sync, invName(ti, fn, uid, id))
			k := calls[[2]int{ti, fn}]
			calls[[2]int{ti, fn}] = k + 1
			for _, sop := range scripts[[3]int{ti, fn, k}] {
				reentrant++
				exec(sop)
			}
		}
		for _, op := range sc.Ops {
			cur = newObs()
			w.Rec.Add("op-"+op.Kind, regKey(op.Type, op.Fn), op.ID, "")
			exec(op)
			w.Bus.Wait()
			for _, ti := range sc.Pool {
				c := allTypes[ti].Count(w)
				cur.Count[ti] = c
				if h := allTypes[ti].Has(w); h != (c > 0) {
					out.V("has-count-disagree", "HasHandlers(E%02d)=%v but HandlerCount=%d", ti, h, c)
				}
			}
			actual = append(actual, cur)
		}
	}
	rep, herr := core.Sim(t, &sc.Base, nil, body)
	out.Rep = rep
	if out.HarnessErr == "" {
		out.HarnessErr = herr
	}
	if rep == nil {
		return out
	}
	if w != nil {
		out.LogHash = w.Rec.Hash()
	}
	if rep.Deadlock {
		out.V("deadlock", "%s", rep.DeadlockInfo)
		return out
	}
	if rep.BudgetExceeded {
		out.HarnessErr = "step budget exceeded"
		return out
	}
	for _, p := range rep.Panics {
		out.V("escaped-panic", "%s: %s\n%s", p.Task, p.Value, p.Stack)
	}
	if len(out.Violations) > 0 || out.HarnessErr != "" {
		return out
	}
	// compare with the model; ambiguous Unsubscribes (several registrations of the function) try every choice
	want, amb := sc.runModel(nil)
	firstMsg := ""
	match := func(want []*c01Obs) (int, string) {
		for i := range sc.Ops {
			if i >= len(actual) {
				return i, fmt.Sprintf("run stopped after %d of %d operations", len(actual), len(sc.Ops))
			}
			if msg := c01Compare(i, sc.Ops[i], want[i], actual[i]); msg != "" {
				return i, msg
			}
		}
		return -1, ""
	}
	_, firstMsg = match(want)
	if firstMsg != "" && len(amb) > 0 {
		// The property does not say WHICH registration of a function an Unsubscribe removes. Search the
		// choices depth first: a prefix of choices is abandoned as soon as the model disagrees with the run
		// before the operation that holds the next free choice; candidates that the run never invokes again
		// are tried first (so a legal implementation is matched along the first path whatever its rule is -
		// first match, last match, ...). Bounded by model runs; only reached after a mismatch.
		seenAfter := func(prefix string, op int) bool {
			for j := op; j < len(actual); j++ {
				for _, n := range actual[j].Sync {
					if strings.HasPrefix(n, prefix) {
						return true
					}
				}
				for n := range actual[j].Async {
					if strings.HasPrefix(n, prefix) {
						return true
					}
				}
			}
			return false
		}
		runs := 0
		var dfs func(prefix []int) bool
		dfs = func(prefix []int) bool {
			if runs >= 60000 {
				return false
			}
			runs++
			w, m := sc.runModelFull(prefix)
			mis, _ := match(w)
			if mis < 0 {
				return true
			}
			k := len(prefix)
			if k >= len(m.ambiguous) || mis < m.ambOp[k] {
				return false // nothing left to vary, or the disagreement precedes the next free choice
			}
			var first, later []int
			for c, name := range m.ambCand[k] {
				if seenAfter(name, m.ambOp[k]+1) {
					later = append(later, c)
				} else {
					first = append(first, c)
				}
			}
			for _, c := range append(first, later...) {
				if dfs(append(append([]int{}, prefix...), c)) {
					return true
				}
			}
			return false
		}
		if dfs(nil) {
			firstMsg = ""
			out.Probe("ambiguous-unsubscribe-resolved-by-other-choice")
		}
	}
	if firstMsg != "" {
		out.V("registry-model-mismatch", "%s", firstMsg)
	}
	out.Nontrivial = len(sc.Ops) > 1
	if reentrant > 0 {
		out.Probe("reentrant-op-from-handler")
	}
	if len(sc.Pool) == 40 {
		out.Probe("more-types-than-shards")
	}
	out.Summary = fmt.Sprintf("%d ops on %d types, %d scripts, %d re-entrant ops executed", len(sc.Ops), len(sc.Pool), len(sc.Scripts), reentrant)
	return out
}

var propC01 = &core.Property{ID: "C01", Gen: genC01, New: func() core.Scenario { return &C01Scenario{} }}

func TestC01(t *testing.T) { core.RunProperty(t, propC01) }
