//go:build race

package props

// raceBuild: the -race build of the harness (C03 race engine, race companions)
const raceBuild = true
