package props

import (
	"context"
	"encoding/json"
	"fmt"
	"reflect"
	"testing"
	"time"

	eventbus "github.com/jilio/ebu"
	"github.com/jilio/ebu/state"
	"pgregory.net/rapid"

	"ebusim/core"
)

// C19 — state messages survive the round trip; bad input is rejected without damage.

type C19Msg struct {
	Helper int    `json:"helper"` // 0 Insert 1 Update 2 UpdateWithOldValue 3 Delete 4 DeleteWithOldValue 5 SnapshotStart 6 SnapshotEnd 7 Reset
	Entity int    `json:"entity"` // 0 SUser 1 SOrder 2 SNamed 3 []string 4 map[string]int
	Key    string `json:"key"`
	V      int    `json:"v"`
	TxID   string `json:"txid,omitempty"`
	TS     int    `json:"ts,omitempty"`   // 0 none, 1 WithTimestamp, 2 WithAutoTimestamp
	Type   string `json:"type,omitempty"` // WithEntityType override ("" = none, "-" = explicit empty override)
	// corruption of the stored bytes on the read path (scenario B)
	Corrupt string `json:"corrupt,omitempty"` // "", flip, truncate, torn, swap, raw
	At      int    `json:"at,omitempty"`
	Raw     string `json:"raw,omitempty"`
}

type C19Scenario struct {
	core.Base
	Store StoreCfg `json:"store"`
	Msgs  []C19Msg `json:"msgs"`
	// Split (in-memory and SQLite stores; -1 = off): a second materializer is fed by Materializer.Replay in two
	// legs - from the oldest offset when the first Split messages are in the log, then from its own LastOffset
	// once all are. It must end up exactly where applying the same stored events one by one leads (same state,
	// same LastOffset, an error exactly where Apply rejects an event), and the bus must still take publishes
	// after a replay that an unappliable event cut short.
	Split int `json:"split"`
	// Strict: the materializers are built with WithStrictSchema: a change for an unregistered entity type is an
	// error - one that, like every rejected event, leaves the collections and LastOffset as they were
	Strict bool `json:"strict,omitempty"`
}

var c19Keys = []string{"k", "a/b", "ключ", "with space", "/", "k\"q", "0"}
var c19Raw = []string{``, `null`, `{}`, `[]`, `"x"`, `{"headers":null}`, `{"headers":{"control":null}}`, `{"headers":{"control":5}}`,
	`{"headers":{"control":["reset"]}}`, `{"headers":"reset"}`, `{"headers":{"control":"reset"}}`, `{"headers":{"control":"bogus"}}`,
	`{"type":5,"key":"k","headers":{"operation":"insert"}}`, `{"type":"` + "props.SUser" + `","key":"k","value":{"age":"old"},"headers":{"operation":"insert"}}`,
	`{"type":"props.SUser","key":"k","value":[1],"headers":{"operation":"update"}}`, `{"type":"props.SUser","key":"k","headers":{"operation":"insert"}}`,
	`{"type":"props.SUser","key":"k","value":null,"headers":{"operation":"insert"}}`, `{"type":"props.SOrder","key":7,"headers":{"operation":"delete"}}`,
	`{"type":"props.SUser","key":"k","value":{"name":"x"},"headers":{"operation":"explode"}}`, `{"type":"props.SUser","key":"k","value":{"name":"x"},"headers":[]}`,
	"\x00\xff\xfe", `{"type":"props.SUser","key":"k","value":{"name":"x"},"headers":{"operation":"insert"}`, `{"headers":{"control":"reset"}}garbage`,
	// control headers that are not well-formed, alone and as stray members of a change message
	`{"headers":{"control":"reset","offset":123}}`, `{"headers":{"control":"reset","offset":"7"}}`, `{"headers":{"control":"reset","offset":null}}`,
	`{"headers":{"control":"snapshot-start","offset":["x"]}}`, `{"headers":{"Control":"reset","OFFSET":{}}}`,
	`{"type":"props.SUser","key":"k2","value":{"name":"stray"},"headers":{"operation":"insert","control":"reset","offset":7}}`,
	`{"type":"props.SUser","key":"k2","value":{"name":"stray"},"headers":{"operation":"insert","control":"reset"}}`,
	`{"type":"props.SUser","key":"k2","value":{"name":"x"},"headers":{"operation":"insert","txid":5}}`,
	`{"type":"props.SOrder","key":"k","value":{"total":1},"headers":{"operation":"update","timestamp":false}}`,
	`{"type":"props.SOrder","key":"k","value":{"total":1},"old_value":17,"headers":{"operation":"update"}}`}

func genC19(rt *rapid.T) core.Scenario {
	sc := &C19Scenario{Store: StoreCfg{Kind: rapid.SampledFrom([]string{"mem", "mem", "sqlite", "ds"}).Draw(rt, "store")}}
	n := rapid.IntRange(1, 12).Draw(rt, "nMsgs")
	if rapid.IntRange(0, 5).Draw(rt, "long") == 5 {
		n = rapid.IntRange(10, 30).Draw(rt, "nMsgsLong")
	}
	sc.Strict = rapid.IntRange(0, 2).Draw(rt, "strict") == 2
	sc.Split = -1
	if sc.Store.Kind != "ds" && rapid.IntRange(0, 2).Draw(rt, "twoLegs") > 0 {
		sc.Split = rapid.IntRange(0, n).Draw(rt, "split")
	}
	if sc.Store.Kind == "sqlite" {
		sc.Store.StreamBatch = rapid.SampledFrom([]int{0, 0, 2, 5}).Draw(rt, "streamBatch")
		sc.Store.InMemory = rapid.IntRange(0, 2).Draw(rt, "inMemory") == 2
	}
	for i := 0; i < n; i++ {
		m := C19Msg{Helper: rapid.IntRange(0, 7).Draw(rt, "helper"), Entity: rapid.IntRange(0, 4).Draw(rt, "entity"),
			Key: rapid.SampledFrom(c19Keys).Draw(rt, "key"), V: rapid.IntRange(0, 9).Draw(rt, "v")}
		if rapid.IntRange(0, 2).Draw(rt, "tx") == 2 {
			m.TxID = rapid.SampledFrom([]string{"tx-1", "", "ü"}).Draw(rt, "txid")
		}
		m.TS = rapid.IntRange(0, 2).Draw(rt, "ts")
		if rapid.IntRange(0, 3).Draw(rt, "typeOverride") == 3 {
			m.Type = rapid.SampledFrom([]string{"custom", "-", "props.SUser"}).Draw(rt, "typeName")
		}
		if rapid.IntRange(0, 2).Draw(rt, "corrupt") == 2 {
			m.Corrupt = rapid.SampledFrom([]string{"flip", "truncate", "torn", "swap", "raw", "raw", "hdr", "hdr"}).Draw(rt, "corruption")
			m.At = rapid.IntRange(0, 200).Draw(rt, "at")
			if m.Corrupt == "raw" {
				if rapid.Bool().Draw(rt, "rawFromList") {
					m.Raw = rapid.SampledFrom(c19Raw).Draw(rt, "raw")
				} else {
					m.Raw = string(rapid.SliceOfN(rapid.Byte(), 0, 40).Draw(rt, "rawBytes"))
				}
			}
		}
		sc.Msgs = append(sc.Msgs, m)
	}
	return sc
}

func (m C19Msg) build() (any, *state.ChangeMessage, error) {
	var opts []state.ChangeOption
	if m.TxID != "" {
		opts = append(opts, state.WithTxID(m.TxID))
	}
	switch m.TS {
	case 1:
		opts = append(opts, state.WithTimestamp(time.Unix(1700000000, 5).UTC()))
	case 2:
		opts = append(opts, state.WithAutoTimestamp())
	}
	if m.Type == "-" {
		opts = append(opts, state.WithEntityType(""))
	} else if m.Type != "" {
		opts = append(opts, state.WithEntityType(m.Type))
	}
	switch m.Helper {
	case 5:
		return *state.SnapshotStart("off-" + m.Key), nil, nil
	case 6:
		return *state.SnapshotEnd("off-" + m.Key), nil, nil
	case 7:
		return *state.Reset("off"), nil, nil
	}
	var cm *state.ChangeMessage
	var err error
	switch m.Entity {
	case 0:
		cm, err = buildChange(m.Helper, m.Key, sUser(m.V), sUser(m.V+1), opts)
	case 1:
		cm, err = buildChange(m.Helper, m.Key, sOrder(m.V), sOrder(m.V+1), opts)
	case 2:
		cm, err = buildChange(m.Helper, m.Key, SNamed{N: m.V}, SNamed{N: m.V + 1}, opts)
	case 3:
		val := []string{fmt.Sprint(m.V), "t"}
		if m.V == 9 {
			val = nil // an entity whose JSON encoding is null: a value all the same
		}
		cm, err = buildChange(m.Helper, m.Key, val, []string{}, opts)
	default:
		val := map[string]int{fmt.Sprintf("k%d", m.V): m.V}
		if m.V == 9 {
			val = nil
		}
		cm, err = buildChange(m.Helper, m.Key, val, map[string]int{}, opts)
	}
	if err != nil {
		return nil, nil, err
	}
	return *cm, cm, nil
}

func buildChange[T any](helper int, key string, v, old T, opts []state.ChangeOption) (*state.ChangeMessage, error) {
	switch helper {
	case 0:
		return state.Insert(key, v, opts...)
	case 1:
		return state.Update(key, v, opts...)
	case 2:
		return state.UpdateWithOldValue(key, v, old, opts...)
	case 3:
		return state.Delete[T](key, opts...)
	default:
		return state.DeleteWithOldValue(key, old, opts...)
	}
}

func (m C19Msg) entityTypeName() string {
	if m.Type != "" && m.Type != "-" {
		return m.Type
	}
	return []string{entName(SUser{}), entName(SOrder{}), entName(SNamed{}), entName([]string{}), entName(map[string]int{})}[m.Entity]
}

func corruptBytes(data []byte, m C19Msg, other []byte) []byte {
	switch m.Corrupt {
	case "flip":
		if len(data) == 0 {
			return data
		}
		d := append([]byte{}, data...)
		d[m.At%len(d)] ^= 1 << (m.At % 8)
		return d
	case "truncate":
		return append([]byte{}, data[:m.At%(len(data)+1)]...)
	case "torn":
		k := m.At % (len(data) + 1)
		return append(append([]byte{}, data[:k]...), make([]byte, len(data)-k)...)
	case "swap":
		return other
	case "raw":
		return []byte(m.Raw)
	case "hdr":
		// a well-formed message whose headers gain (or have replaced) one or two members, some ill-typed
		var doc map[string]json.RawMessage
		var hdr map[string]json.RawMessage
		if json.Unmarshal(data, &doc) != nil || json.Unmarshal(doc["headers"], &hdr) != nil || hdr == nil {
			return data
		}
		extra := [][2]string{{"control", `"reset"`}, {"offset", `7`}, {"offset", `"o"`}, {"control", `5`}, {"control", `null`}, {"txid", `5`},
			{"operation", `"insert"`}, {"operation", `7`}, {"timestamp", `false`}, {"control", `"snapshot-end"`}, {"Offset", `[]`}, {"control", `""`}}
		a, b := extra[m.At%len(extra)], extra[(m.At/len(extra))%len(extra)]
		hdr[a[0]] = json.RawMessage(a[1])
		hdr[b[0]] = json.RawMessage(b[1])
		doc["headers"] = mustJSON(hdr)
		return mustJSON(doc)
	}
	return data
}

// c19Model applies what the bytes decode to under the state protocol, independently of the implementation.
// ok=false: the bytes do not form an applicable message (an error is the only acceptable outcome besides no change).
func c19Model(cur map[string]string, data []byte, known map[string]string, strict bool) (next map[string]string, ok bool) {
	next = map[string]string{}
	for k, v := range cur {
		next[k] = v
	}
	// Decoded with Go's JSON rules (member names match case-insensitively, as for any Go consumer of the
	// protocol) into the protocol's TYPED members. A document is a control message only if its headers are
	// well-formed control headers (control and offset both strings) naming a control; otherwise it is read as
	// a change message, whose own members (type, key: strings; headers.operation/txid/timestamp: strings)
	// must be well-typed for it to be applicable. A malformed header must never be acted upon.
	var top struct {
		Headers json.RawMessage `json:"headers"`
	}
	if json.Unmarshal(data, &top) != nil {
		return cur, false
	}
	var ctrl struct {
		Control string `json:"control"`
		Offset  string `json:"offset"`
	}
	if json.Unmarshal(top.Headers, &ctrl) == nil && ctrl.Control != "" {
		if ctrl.Control == "reset" {
			return map[string]string{}, true
		}
		return next, true // snapshot markers and unknown controls change nothing
	}
	var msg struct {
		Type     string          `json:"type"`
		Key      string          `json:"key"`
		Value    json.RawMessage `json:"value"`
		OldValue json.RawMessage `json:"old_value"`
		Headers  struct {
			Operation string `json:"operation"`
			TxID      string `json:"txid"`
			Timestamp string `json:"timestamp"`
		} `json:"headers"`
	}
	if json.Unmarshal(data, &msg) != nil {
		return cur, false
	}
	coll, registered := known[msg.Type]
	if !registered {
		if strict {
			return cur, false // strict schema: an unknown entity type is rejected
		}
		return next, true // non-strict: unregistered entity types change nothing
	}
	ck := coll + "|" + compositeKey(msg.Type, msg.Key)
	switch msg.Headers.Operation {
	case "insert", "update":
		val := []byte(msg.Value)
		if len(val) == 0 {
			return cur, false // an insert/update without a value cannot be applied
		}
		norm, okv := c19Normalize(coll, val)
		if !okv {
			return cur, false
		}
		next[ck] = norm
	case "delete":
		delete(next, ck)
	}
	return next, true
}

func c19Normalize(coll string, val []byte) (string, bool) {
	switch coll {
	case "user":
		var v SUser
		if json.Unmarshal(val, &v) != nil {
			return "", false
		}
		return string(mustJSON(v)), true
	case "order":
		var v SOrder
		if json.Unmarshal(val, &v) != nil {
			return "", false
		}
		return string(mustJSON(v)), true
	case "tags":
		var v []string
		if json.Unmarshal(val, &v) != nil {
			return "", false
		}
		return string(mustJSON(v)), true
	case "counts":
		var v map[string]int
		if json.Unmarshal(val, &v) != nil {
			return "", false
		}
		return string(mustJSON(v)), true
	default:
		var v SNamed
		if json.Unmarshal(val, &v) != nil {
			return "", false
		}
		return string(mustJSON(v)), true
	}
}

func linesToMap(lines []string) map[string]string {
	m := map[string]string{}
	for _, l := range lines {
		for i := 0; i < len(l); i++ {
			if l[i] == '=' {
				m[l[:i]] = l[i+1:]
				break
			}
		}
	}
	return m
}

func (sc *C19Scenario) Execute(t *testing.T) *core.Outcome {
	out := &core.Outcome{}
	var rec core.Recorder
	body := func() {
		env := newStoreEnv()
		defer env.Close()
		store, err := env.openStore(sc.Store, "main")
		if err != nil {
			out.HarnessErr = err.Error()
			return
		}
		bus := eventbus.New(eventbus.WithStore(store))
		ctx := context.Background()
		var built []*state.ChangeMessage
		// ---- C: a materializer fed by Replay in two legs against one fed event by event
		fed, ref := newC18Mat(sc.Strict), newC18Mat(sc.Strict)
		leg := func(name string) bool {
			from := fed.m.LastOffset()
			if from != ref.m.LastOffset() {
				out.HarnessErr = "reference materializer out of step"
				return false
			}
			evs, _, err := store.Read(ctx, from, 0)
			if err != nil {
				out.HarnessErr = "read: " + err.Error()
				return false
			}
			var refErr error
			for _, e := range evs {
				if refErr = ref.m.Apply(e); refErr != nil {
					break
				}
			}
			rec.Add("replay-leg", len(evs), 0, fmt.Sprint(refErr != nil))
			gotErr := fed.m.Replay(ctx, bus, from)
			if (gotErr != nil) != (refErr != nil) {
				out.V("replay-vs-apply", "%s leg: Materializer.Replay from %q returned %v; applying the same %d stored events one by one returns %v", name, from, gotErr, len(evs), refErr)
				return false
			}
			if a, b := fed.snapshot(), ref.snapshot(); !reflect.DeepEqual(a, b) || fed.m.LastOffset() != ref.m.LastOffset() {
				out.V("replay-vs-apply", "%s leg (store %s): Materializer.Replay from %q over %d events left LastOffset %q and state %v; applying the same stored events one by one leaves LastOffset %q and state %v", name, sc.Store, from, len(evs), fed.m.LastOffset(), a, ref.m.LastOffset(), b)
				return false
			}
			if gotErr != nil {
				out.Probe("replay-cut-short-by-rejected-event")
			}
			return true
		}
		for i, m := range sc.Msgs {
			if i == sc.Split && !leg("first") {
				return
			}
			msg, cm, err := m.build()
			if err != nil {
				out.HarnessErr = "helper failed on a JSON-encodable entity: " + err.Error()
				return
			}
			built = append(built, cm)
			publishMsg(bus, msg)
		}
		if sc.Split >= 0 && !leg("second") {
			return
		}
		stored, _, err := store.Read(ctx, eventbus.OffsetOldest, 0)
		if err != nil || len(stored) != len(sc.Msgs) {
			out.HarnessErr = fmt.Sprintf("log has %d events for %d messages (%v)", len(stored), len(sc.Msgs), err)
			return
		}
		known := map[string]string{entName(SUser{}): "user", entName(SOrder{}): "order", entName(SNamed{}): "named",
			entName([]string{}): "tags", entName(map[string]int{}): "counts"}
		mat := newC18Mat(sc.Strict)
		for i, m := range sc.Msgs {
			ev := *stored[i]
			// ---- A: the wire format, as stored
			var doc map[string]json.RawMessage
			if err := json.Unmarshal(ev.Data, &doc); err != nil {
				out.V("stored-json", "stored message %d is not a JSON object: %v", i, err)
				continue
			}
			allowed := map[string]bool{"type": true, "key": true, "value": true, "old_value": true, "headers": true}
			for k := range doc {
				if !allowed[k] {
					out.V("protocol-field-names", "stored message %d has member %q, not a state-protocol field", i, k)
				}
			}
			var hdr map[string]json.RawMessage
			json.Unmarshal(doc["headers"], &hdr)
			for k := range hdr {
				if !(map[string]bool{"operation": true, "txid": true, "timestamp": true, "control": true, "offset": true}[k]) {
					out.V("protocol-field-names", "stored message %d has header %q, not a state-protocol header", i, k)
				}
			}
			if m.Helper <= 4 {
				wantOp := []string{"insert", "update", "update", "delete", "delete"}[m.Helper]
				var op, typ, key, tx string
				json.Unmarshal(hdr["operation"], &op)
				json.Unmarshal(doc["type"], &typ)
				json.Unmarshal(doc["key"], &key)
				json.Unmarshal(hdr["txid"], &tx)
				if op != wantOp || key != m.Key || tx != m.TxID {
					out.V("round-trip", "message %d stored with operation %q key %q txid %q, built with %q %q %q", i, op, key, tx, wantOp, m.Key, m.TxID)
				}
				if typ != m.entityTypeName() {
					out.V("round-trip-entity-type", "message %d (helper %d, WithEntityType %q) stored with entity type %q, expected %q", i, m.Helper, m.Type, typ, m.entityTypeName())
				}
				if (m.TS > 0) != (hdr["timestamp"] != nil) {
					out.V("round-trip", "message %d: timestamp option %d but stored timestamp header present=%v", i, m.TS, hdr["timestamp"] != nil)
				}
				if (m.Helper == 2 || m.Helper == 4) != (doc["old_value"] != nil) {
					out.V("round-trip", "message %d (helper %d): old_value present=%v", i, m.Helper, doc["old_value"] != nil)
				}
				if m.Helper <= 2 && !jsonEqual(doc["value"], built[i].Value) {
					out.V("round-trip", "message %d: stored value %s differs from the built value %s", i, trunc(string(doc["value"])), trunc(string(built[i].Value)))
				}
			} else {
				var c string
				json.Unmarshal(hdr["control"], &c)
				if c != []string{"snapshot-start", "snapshot-end", "reset"}[m.Helper-5] {
					out.V("round-trip", "control message %d stored with control %q", i, c)
				}
			}
			// ---- B: apply (possibly corrupted bytes); never panics, errors leave no trace
			other := stored[(i+1)%len(stored)].Data
			if m.Corrupt != "" {
				ev.Data = corruptBytes(ev.Data, m, other)
				out.Fault("stored-bytes-corrupted-" + m.Corrupt)
			}
			before := mat.snapshot()
			lastBefore := mat.m.LastOffset()
			var applyErr error
			panicked := func() (p any) {
				defer func() { p = recover() }()
				applyErr = mat.m.Apply(&ev)
				return nil
			}()
			if panicked != nil {
				out.V("apply-panicked", "Materializer.Apply panicked on %q: %v", trunc(string(ev.Data)), panicked)
				return
			}
			after := mat.snapshot()
			rec.Add("apply", i, len(ev.Data), fmt.Sprint(applyErr != nil))
			wantState, applicable := c19Model(linesToMap(before), ev.Data, known, sc.Strict)
			switch {
			case applyErr != nil:
				if m.Corrupt == "" && m.Type == "" { // (an entity type override may name another entity's collection)
					out.V("round-trip-apply-failed", "message %d, built by the helper constructors (helper %d entity %d key %q) and stored unchanged, was rejected by Apply: %v (stored value %s)", i, m.Helper, m.Entity, m.Key, applyErr, trunc(string(doc["value"])))
				}
				if !reflect.DeepEqual(before, after) || mat.m.LastOffset() != lastBefore {
					out.V("failed-apply-left-damage", "Apply returned %v for %q but changed state or LastOffset (%q -> %q):\n  before %v\n  after  %v", applyErr, trunc(string(ev.Data)), lastBefore, mat.m.LastOffset(), before, after)
				}
			default:
				unchanged := reflect.DeepEqual(before, after)
				asModel := applicable && reflect.DeepEqual(linesToMap(after), wantState)
				if !unchanged && !asModel {
					out.V("apply-wrong-effect", "Apply(%q) returned nil and changed state to %v; the bytes decode to %v (applicable=%v), before %v", trunc(string(ev.Data)), after, wantState, applicable, before)
				}
				if m.Corrupt == "" && !asModel {
					out.V("round-trip-materialized", "uncorrupted message %d (helper %d entity %d key %q type override %q) materialized to %v, expected %v", i, m.Helper, m.Entity, m.Key, m.Type, after, wantState)
				}
				if mat.m.LastOffset() != ev.Offset {
					out.V("last-offset", "Apply returned nil but LastOffset=%q, event offset %q", mat.m.LastOffset(), ev.Offset)
				}
			}
		}
	}
	rep, herr := core.Sim(t, &sc.Base, nil, body)
	out.Rep = rep
	if out.HarnessErr == "" {
		out.HarnessErr = herr
		if call, hung := storeHang(rep); hung {
			out.HarnessErr = ""
			out.V("store-call-never-returned", "a call into the store did not return although nothing else was runnable and a minute of simulated time had passed: %s", call)
			return out
		}
	}
	if rep == nil {
		return out
	}
	out.LogHash = rec.Hash()
	out.Nontrivial = true
	for _, p := range rep.Panics {
		out.V("apply-panicked", "%s: %s\n%s", p.Task, p.Value, p.Stack)
	}
	if rep.BudgetExceeded || rep.Deadlock {
		out.HarnessErr = "run did not finish"
	}
	out.Summary = fmt.Sprintf("store %s, %d messages", sc.Store, len(sc.Msgs))
	return out
}

var propC19 = &core.Property{ID: "C19", Gen: genC19, New: func() core.Scenario { return &C19Scenario{} }}

func TestC19(t *testing.T) { core.RunProperty(t, propC19) }
