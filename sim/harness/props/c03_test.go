package props

import (
	"context"
	"encoding/json"
	"fmt"
	"os"
	"reflect"
	"testing"
	"time"

	eventbus "github.com/jilio/ebu"
	"github.com/jilio/ebu/state"
	"pgregory.net/rapid"

	"ebusim/core"
	"simshim/simrt"
)

// C03 — concurrent use of the API is free of data races and deadlocks; re-entrancy allowed.
//
// The same scenarios feed two engines: the scheduler's deadlock verdict (normal build)
// and the Go race detector under the serialised schedule (-race build, see simrt/simsync).
// The harness callbacks keep no shared mutable state of their own, so that every
// report of the race detector is about ebu's memory, not the harness's.

type C03Op struct {
	Kind string  `json:"kind"`
	T    int     `json:"t,omitempty"`  // 0,1 active types; 2 leaf type
	Fn   int     `json:"fn,omitempty"` // 0..3
	Opts SubOpts `json:"opts,omitempty"`
	N    int     `json:"n,omitempty"`
}

type C03Scenario struct {
	core.Base
	Types    [3]int    `json:"types"`
	Init     []C03Op   `json:"init"`
	Tasks    [][]C03Op `json:"tasks"`
	Script   []C03Op   `json:"script"` // re-entrant operations run by every handler of the active types
	FilterOp *C03Op    `json:"filter_op,omitempty"`
	HookOp   *C03Op    `json:"hook_op,omitempty"`
	Persist  bool      `json:"persist"`
	// SQLite (with Persist, normal build only): the bus is backed by a file-based SQLite store instead of the MemoryStore.
	// (Not ":memory:": in shared-cache mode a writer waits for another goroutine's open read cursor inside the
	// driver, which the scheduler cannot see through while that other task is parked.)
	SQLite bool `json:"sqlite,omitempty"`
	// ReplayCrowd (with Persist): this many further tasks each open one resumable subscription (ids of their own)
	// to the first active type at the same time - several replays inside their handlers at once, each saving
	// its position through the store while the others' cursors are open
	ReplayCrowd int `json:"replay_crowd,omitempty"`
	Panics   bool      `json:"panics,omitempty"` // handlers panic for events whose id is even
	Obs      bool      `json:"obs,omitempty"`
}

var c03Kinds = []string{"pub", "pub", "pub", "pubcancel", "pubburst", "sub", "sub", "unsub", "clear", "clearall", "has", "count", "wait"}
var c03PersistKinds = []string{"replay", "replay-upcast", "subreplay", "subreplay", "storeread", "save-offset", "load-offset", "reg-upcast", "reg-upcast", "clear-upcasts", "clear-upcasts-type", "mat-apply", "mat-apply", "mat-get", "mat-all", "mat-last", "mat-replay", "mat-register", "shutdown"}
var c03ReentrantKinds = []string{"pub", "sub", "unsub", "clear", "count", "has"}

func genC03Op(rt *rapid.T, kinds []string, leafOnly bool) C03Op {
	op := C03Op{Kind: rapid.SampledFrom(kinds).Draw(rt, "kind"), T: rapid.IntRange(0, 2).Draw(rt, "t"), Fn: rapid.IntRange(0, 3).Draw(rt, "fn"), N: rapid.IntRange(0, 3).Draw(rt, "n")}
	if leafOnly {
		op.T = 2
	}
	if op.Kind == "sub" {
		op.Opts = SubOpts{
			Once:   rapid.IntRange(0, 3).Draw(rt, "once") == 3,
			Async:  rapid.IntRange(0, 2).Draw(rt, "async") == 2,
			Seq:    rapid.IntRange(0, 3).Draw(rt, "seq") == 3,
			Filter: rapid.SampledFrom([]int{0, 0, 1, 2}).Draw(rt, "filter"),
		}
		if op.Opts.Async && rapid.IntRange(0, 2).Draw(rt, "asyncSeq") == 2 {
			op.Opts.Seq = true
		}
	}
	return op
}

func genC03(rt *rapid.T) core.Scenario {
	sc := &C03Scenario{}
	perm := rapid.Permutation(intRange(len(allTypes))).Draw(rt, "types")
	copy(sc.Types[:], perm[:3])
	sc.Persist = rapid.Bool().Draw(rt, "persist")
	sc.SQLite = sc.Persist && !raceBuild && rapid.IntRange(0, 4).Draw(rt, "sqlite") == 4
	sc.Obs = rapid.IntRange(0, 3).Draw(rt, "obs") == 3
	sc.Panics = rapid.IntRange(0, 3).Draw(rt, "panics") == 3
	kinds := c03Kinds
	if sc.Persist {
		kinds = append(append([]string{}, c03Kinds...), c03PersistKinds...)
	}
	nInit := rapid.IntRange(0, 4).Draw(rt, "nInit")
	for i := 0; i < nInit; i++ {
		sc.Init = append(sc.Init, genC03Op(rt, []string{"sub"}, false))
	}
	if sc.Persist {
		// a sequential preamble that leaves events in the store and upcasters registered for their
		// type names, so that the concurrent replays below have chains to walk
		nPre := rapid.IntRange(0, 4).Draw(rt, "nPre")
		for i := 0; i < nPre; i++ {
			sc.Init = append(sc.Init, genC03Op(rt, []string{"pub", "reg-upcast"}, false))
		}
	}
	if sc.Persist && rapid.IntRange(0, 3).Draw(rt, "crowd") == 3 {
		sc.ReplayCrowd = rapid.IntRange(3, 6).Draw(rt, "nCrowd")
		sc.Init = append(sc.Init, C03Op{Kind: "pub", T: 0, N: 1}, C03Op{Kind: "pub", T: 0, N: 2})
	}
	nt := rapid.IntRange(2, 5).Draw(rt, "nTasks")
	for t := 0; t < nt; t++ {
		n := rapid.IntRange(1, 5).Draw(rt, "nOps")
		var l []C03Op
		for i := 0; i < n; i++ {
			l = append(l, genC03Op(rt, kinds, false))
		}
		sc.Tasks = append(sc.Tasks, l)
	}
	ns := rapid.IntRange(0, 2).Draw(rt, "nScript")
	for i := 0; i < ns; i++ {
		sc.Script = append(sc.Script, genC03Op(rt, c03ReentrantKinds, true))
	}
	if rapid.IntRange(0, 2).Draw(rt, "filterReenters") == 2 {
		op := genC03Op(rt, c03ReentrantKinds, true)
		sc.FilterOp = &op
	}
	if rapid.IntRange(0, 2).Draw(rt, "hookReenters") == 2 {
		op := genC03Op(rt, c03ReentrantKinds, true)
		sc.HookOp = &op
	}
	// The stated exception: a synchronous Sequential handler must not publish (it could be
	// delivered back to itself, or invert lock order with another such handler).
	publishes := false
	for _, op := range sc.Script {
		publishes = publishes || op.Kind == "pub"
	}
	fix := func(op *C03Op) {
		if op.Kind == "sub" && op.Opts.Seq && !op.Opts.Async && publishes && op.T != 2 {
			op.Opts.Seq = false
		}
	}
	for i := range sc.Init {
		fix(&sc.Init[i])
	}
	for i := range sc.Tasks {
		for j := range sc.Tasks[i] {
			fix(&sc.Tasks[i][j])
		}
	}
	sc.Tape = core.DrawTape(rt, 600)
	return sc
}

type c03Entity struct {
	Name string `json:"name"`
}

func (sc *C03Scenario) Execute(t *testing.T) *core.Outcome {
	out := &core.Outcome{}
	if p := os.Getenv("VERIF_CURRENT"); p != "" {
		// a race report kills the process: leave the scenario where the driver can find it
		data, _ := json.Marshal(sc)
		os.WriteFile(p, data, 0o644)
	}
	body := func() {
		var opts []eventbus.Option
		var store interface {
			eventbus.EventStore
			eventbus.SubscriptionStore
		}
		if sc.Persist {
			store = eventbus.NewMemoryStore()
			if sc.SQLite {
				env := newStoreEnv()
				defer env.Close()
				st, err := env.openStore(StoreCfg{Kind: "sqlite", StreamBatch: 2 * (len(sc.Tasks) % 2)}, "main")
				if err != nil {
					out.HarnessErr = err.Error()
					return
				}
				store = st.(interface {
					eventbus.EventStore
					eventbus.SubscriptionStore
				})
			}
			opts = append(opts, eventbus.WithStore(store))
		}
		if sc.Obs {
			opts = append(opts, eventbus.WithObservability(nopObs{}))
		}
		var w *World
		var cancels []context.CancelFunc
		leafRT := allTypes[sc.Types[2]].RT
		var reenter func(op C03Op)
		if sc.HookOp != nil {
			hop := *sc.HookOp
			opts = append(opts, eventbus.WithBeforePublishContext(func(ctx context.Context, et reflect.Type, ev any) {
				if et != leafRT && !simrt.Dying() {
					reenter(hop)
				}
			}), eventbus.WithAfterPublish(func(et reflect.Type, ev any) {
				if et != leafRT && !simrt.Dying() {
					reenter(hop)
				}
			}), eventbus.WithAfterPublishContext(func(ctx context.Context, et reflect.Type, ev any) {
				if et != leafRT && !simrt.Dying() {
					ctx.Err() // a hook that looks at the context it is given, like the handlers started before it
					reenter(hop)
				}
			}))
		}
		w = NewWorld(opts...)
		ctx := context.Background()
		typ := func(i int) *TypeOps { return allTypes[sc.Types[i%3]] }
		fnOf := func(op C03Op) int {
			if op.Fn%2 == 1 {
				return numSites + op.Fn
			}
			return op.Fn
		}
		reenter = func(op C03Op) {
			switch op.Kind {
			case "pub":
				typ(2).Pub(w, ctx, 900+op.N)
			case "sub":
				w.SubscribeUID(sc.Types[2], fnOf(op), 0, op.Opts)
			case "unsub":
				typ(2).Unsub(w, fnOf(op))
			case "clear":
				typ(2).Clear(w)
			case "count":
				typ(2).Count(w)
			case "has":
				typ(2).Has(w)
			}
		}
		w.OnInvoke = func(ti, fn, uid int, c context.Context, id int) {
			simrt.Yield(siteHandler)
			if id >= 50000 && id-50000 < len(cancels) {
				if cf := cancels[id-50000]; cf != nil {
					cf()
				}
			}
			if ti != sc.Types[2] {
				for _, op := range sc.Script {
					reenter(op)
				}
			}
			if sc.Panics && id%2 == 0 {
				panic("handler panic (recovered by the bus)")
			}
		}
		if sc.FilterOp != nil {
			fop := *sc.FilterOp
			w.OnFilter = func(ti, fn, id int, accepted bool) {
				if ti != sc.Types[2] {
					reenter(fop)
				}
			}
		}
		// handler closures are created up front so that the harness's own cache is read-only afterwards
		for i := 0; i < 3; i++ {
			for fn := 0; fn < 4; fn++ {
				f := fn
				if fn%2 == 1 {
					f = numSites + fn
				}
				typ(i).Prep(w, f, 0)
				typ(i).Prep(w, f, -1)
			}
		}
		// (its reset callback re-enters the materializer, as a callback that logs progress would)
		var mat *state.Materializer
		mat = state.NewMaterializer(state.WithOnReset(func() {
			if !simrt.Dying() {
				mat.LastOffset()
			}
		}), state.WithOnSnapshot(func(bool) {
			if !simrt.Dying() {
				mat.LastOffset()
			}
		}))
		coll := state.NewTypedCollection[c03Entity](state.NewMemoryStore[c03Entity]())
		state.RegisterCollection(mat, coll)
		var stored []*eventbus.StoredEvent
		for i := 0; i < 4; i++ {
			msg, _ := state.Insert(fmt.Sprintf("k%d", i), c03Entity{Name: fmt.Sprint(i)})
			data, _ := json.Marshal(msg)
			stored = append(stored, &eventbus.StoredEvent{Offset: eventbus.Offset(fmt.Sprintf("%020d", i+1)), Type: "state.ChangeMessage", Data: data, Timestamp: time.Unix(int64(i), 0)})
		}
		// upcaster names: the persisted names of the scenario's three types (so that replays really walk
		// chains while other tasks register and clear upcasters), and one name nothing is stored under
		for i, ctl := range []*state.ControlMessage{state.Reset(""), state.SnapshotStart("o"), state.SnapshotEnd("o")} {
			data, _ := json.Marshal(ctl)
			stored = append(stored, &eventbus.StoredEvent{Offset: eventbus.Offset(fmt.Sprintf("%020d", 5+i)), Type: "state.ControlMessage", Data: data, Timestamp: time.Unix(int64(5+i), 0)})
		}
		upName := func(n int) string {
			if n%4 < 3 {
				return typ(n % 4).PersistName
			}
			return fmt.Sprintf("V%d", n%4)
		}
		exec := func(op C03Op, slot int) {
			switch op.Kind {
			case "pub":
				typ(op.T).Pub(w, ctx, op.N+1)
			case "pubcancel":
				// a publish whose context is cancelled by the first handler that runs for it (sync or async);
				// each such op owns one slot of `cancels`, written here before the publish and read by handlers after it
				c, cancel := context.WithCancel(ctx)
				cancels[slot] = cancel
				typ(op.T).Pub(w, c, 50000+slot)
				cancel()
			case "pubburst":
				// a burst of publishes under one context that is cancelled straight afterwards - while asynchronous
				// (and sequential: queued) deliveries of the burst may not have started - then a live publish behind them
				c, cancel := context.WithCancel(ctx)
				for i := 0; i < 2+op.N%2; i++ {
					typ(op.T).Pub(w, c, 60000+10*slot+i)
				}
				cancel()
				typ(op.T).Pub(w, ctx, 60000+10*slot+9)
			case "sub":
				w.SubscribeUID(sc.Types[op.T%3], fnOf(op), 0, op.Opts)
			case "unsub":
				typ(op.T).Unsub(w, fnOf(op))
			case "clear":
				typ(op.T).Clear(w)
			case "clearall":
				clearAll(w)
			case "has":
				typ(op.T).Has(w)
			case "count":
				typ(op.T).Count(w)
			case "wait":
				w.Bus.Wait()
			case "shutdown":
				if sc.SQLite {
					// Shutdown closes the store; database/sql's Close waits, inside the dependency, for cursors that
					// other tasks still hold open - tasks the scheduler has parked. Not a schedule the simulator can run.
					return
				}
				c, cancel := context.WithTimeout(ctx, time.Duration(op.N)*time.Millisecond)
				w.Bus.Shutdown(c)
				cancel()
			case "replay":
				w.Bus.Replay(ctx, eventbus.OffsetOldest, func(e *eventbus.StoredEvent) error { simrt.Yield(siteCallback); return nil })
			case "replay-upcast":
				w.Bus.ReplayWithUpcast(ctx, eventbus.OffsetOldest, func(e *eventbus.StoredEvent) error { simrt.Yield(siteCallback); return nil })
			case "subreplay":
				// a resumable subscription to an active type: replays what is stored, then saves its
				// position on every live delivery while other tasks load and save positions
				// (its handler re-enters the bus like any other handler: it publishes a leaf event, which on this
				// persistent bus goes through the store lock)
				typ(op.T).SubReplay(w, ctx, fmt.Sprintf("sub-%d", op.N%2), func(int) {
					simrt.Yield(siteHandler)
					// (not on SQLite with batched streaming: the replay re-queries the log as it goes, an upcaster may map the
					// leaf type to the subscribed one, and a handler that appends to the stream it is replaying never ends)
					if !simrt.Dying() && op.T != 2 && op.Fn%2 == 0 && !sc.SQLite {
						reenter(C03Op{Kind: "pub", N: op.N})
					}
				})
			case "save-offset":
				if evs, _, err := store.Read(ctx, eventbus.OffsetOldest, op.Fn+1); err == nil && len(evs) > 0 {
					store.SaveOffset(ctx, fmt.Sprintf("sub-%d", op.N%2), evs[len(evs)-1].Offset)
				}
			case "load-offset":
				store.LoadOffset(ctx, fmt.Sprintf("sub-%d", op.N%2))
			case "storeread":
				store.Read(ctx, eventbus.OffsetOldest, op.N)
			case "reg-upcast":
				to := upName(op.N + 1 + op.Fn)
				fails := (op.N+op.Fn)%3 == 2 // an upcaster that rejects what it is given (the bus reports it and carries on)
				eventbus.RegisterUpcastFunc(w.Bus, upName(op.N), to, func(d json.RawMessage) (json.RawMessage, string, error) {
					simrt.Yield(siteUpcaster)
					if fails {
						return nil, "", errUpcastInjected
					}
					return d, to, nil
				})
			case "clear-upcasts":
				w.Bus.ClearUpcasts()
			case "clear-upcasts-type":
				w.Bus.ClearUpcastsForType(upName(op.N))
			case "mat-apply":
				mat.Apply(stored[(op.N+4*op.Fn)%len(stored)])
			case "mat-get":
				coll.Get(fmt.Sprintf("k%d", op.N))
			case "mat-all":
				coll.All()
			case "mat-last":
				mat.LastOffset()
			case "mat-replay":
				mat.Replay(ctx, w.Bus, eventbus.OffsetOldest)
			case "mat-register":
				state.RegisterCollection(mat, state.NewTypedCollectionWithType[c03Entity](state.NewMemoryStore[c03Entity](), fmt.Sprintf("extra%d", op.N)))
			}
		}
		for _, op := range sc.Init {
			exec(op, 0)
		}
		var tasks []*simrt.Task
		slotBase := make([]int, len(sc.Tasks))
		nSlots := 1
		for i, l := range sc.Tasks {
			slotBase[i] = nSlots
			nSlots += len(l)
		}
		cancels = make([]context.CancelFunc, nSlots)
		for i, l := range sc.Tasks {
			l := l
			base := slotBase[i]
			tasks = append(tasks, simrt.GoNamed(fmt.Sprintf("client%d", i), func() {
				for j, op := range l {
					if !sc.Persist {
						switch op.Kind {
						case "pub", "pubcancel", "pubburst", "sub", "unsub", "clear", "clearall", "has", "count", "wait":
						default:
							continue
						}
					}
					exec(op, base+j)
				}
			}))
		}
		for i := 0; i < sc.ReplayCrowd && sc.Persist; i++ {
			i := i
			tasks = append(tasks, simrt.GoNamed(fmt.Sprintf("crowd%d", i), func() {
				typ(0).SubReplay(w, ctx, fmt.Sprintf("crowd-%d", i), func(int) { simrt.Yield(siteHandler) })
			}))
		}
		simrt.Join(tasks...)
		w.Bus.Wait()
	}
	rep, herr := core.Sim(t, &sc.Base, nil, body)
	out.Rep = rep
	out.HarnessErr = herr
	if rep == nil {
		return out
	}
	out.Nontrivial = rep.Choices > 0
	if call, hung := storeHang(rep); hung {
		out.HarnessErr = ""
		out.V("store-call-never-returned", "a call into the store did not return although nothing else was runnable and a minute of simulated time had passed: %s", call)
		return out
	}
	if rep.BudgetExceeded {
		out.HarnessErr = "step budget exceeded"
	}
	for _, p := range rep.Panics {
		out.V("escaped-panic", "%s: %s\n%s", p.Task, p.Value, p.Stack)
	}
	for _, m := range rep.SyncMisuse {
		out.V("sync-misuse", "%s", m)
	}
	if rep.Deadlock {
		out.V("deadlock", "every task is blocked:\n%s", rep.DeadlockInfo)
	}
	out.Summary = fmt.Sprintf("%d tasks, persist=%v, script=%d ops, filter re-enters=%v, hook re-enters=%v", len(sc.Tasks), sc.Persist, len(sc.Script), sc.FilterOp != nil, sc.HookOp != nil)
	return out
}

var propC03 = &core.Property{ID: "C03", Gen: genC03, New: func() core.Scenario { return &C03Scenario{} }}

func TestC03(t *testing.T) { core.RunProperty(t, propC03) }
