package props

import (
	"context"
	"encoding/json"
	"fmt"
	"reflect"
	"testing"
	"time"

	eventbus "github.com/jilio/ebu"
	"pgregory.net/rapid"

	"ebusim/core"
	"simshim/simrt"
)

// C13 — persistence failures are contained, reported once and never corrupt the log.

type C13Pub struct {
	ID      int `json:"id"`
	Variant int `json:"variant"`
	Bad     int `json:"bad,omitempty"` // 0 encodable; 1 channel, 2 func, 3 NaN, 4 the event is an invalid json.RawMessage: no JSON encoding
}

type C13Scenario struct {
	core.Base
	Store      StoreCfg   `json:"store"`
	Plan       FaultPlan  `json:"plan"`
	Pubs       [][]C13Pub `json:"pubs"` // 1-2 publisher tasks
	ErrHandler bool       `json:"err_handler"`
	Reentrant  bool       `json:"reentrant,omitempty"` // the error handler publishes an alert event on the same bus
	BySetter   bool       `json:"by_setter,omitempty"` // the error handler is installed with SetPersistenceErrorHandler after New
	StoreLast  bool       `json:"store_last,omitempty"` // WithStore is the last option instead of the first
	// PubDeadline: every publish carries a context with its own deadline, far later than the persistence timeout
	PubDeadline bool `json:"pub_deadline,omitempty"`
	// StallPost (durable-streams with a persistence timeout): these appends stall on the wire - the server
	// sits on the POST for 200 ms of simulated time, far beyond the timeout
	StallPost []int `json:"stall_post,omitempty"`
	TimeoutMs  int        `json:"timeout_ms,omitempty"`
	Obs        bool       `json:"obs,omitempty"`
	Handlers   []SubOpts  `json:"handlers"`
}

func genC13(rt *rapid.T) core.Scenario {
	sc := &C13Scenario{Store: StoreCfg{Kind: rapid.SampledFrom([]string{"mem", "mem", "mem", "sqlite", "ds"}).Draw(rt, "store")}}
	np := rapid.IntRange(1, 2).Draw(rt, "nPublishers")
	id := 0
	total := 0
	for p := 0; p < np; p++ {
		n := rapid.IntRange(1, 8).Draw(rt, "nPubs")
		var l []C13Pub
		for i := 0; i < n; i++ {
			id++
			pb := C13Pub{ID: id, Variant: rapid.IntRange(0, 5).Draw(rt, "variant")}
			if rapid.IntRange(0, 4).Draw(rt, "unencodable") == 4 {
				pb.Bad = rapid.IntRange(1, 4).Draw(rt, "badKind")
			}
			l = append(l, pb)
			total++
		}
		sc.Pubs = append(sc.Pubs, l)
	}
	idx := rapid.SliceOfNDistinct(rapid.IntRange(0, total), 0, 4, rapid.ID[int])
	sc.Plan.FailAppend = idx.Draw(rt, "failAppend")
	if rapid.IntRange(0, 3).Draw(rt, "lostAck") == 3 {
		sc.Plan.LostAckAppend = idx.Draw(rt, "lostAckAppend")
	}
	sc.TimeoutMs = rapid.SampledFrom([]int{0, 0, 5, 50}).Draw(rt, "timeout")
	if sc.TimeoutMs > 0 {
		sc.Plan.BlockAppend = idx.Draw(rt, "blockAppend")
		if sc.Store.Kind == "ds" {
			sc.StallPost = idx.Draw(rt, "stallPost")
		}
	}
	sc.ErrHandler = rapid.IntRange(0, 3).Draw(rt, "errHandler") > 0
	sc.Reentrant = sc.ErrHandler && rapid.IntRange(0, 3).Draw(rt, "reentrant") == 3
	sc.Obs = rapid.IntRange(0, 3).Draw(rt, "obs") == 3
	sc.BySetter = sc.ErrHandler && rapid.IntRange(0, 2).Draw(rt, "bySetter") == 2
	sc.StoreLast = rapid.IntRange(0, 2).Draw(rt, "storeLast") == 2
	sc.PubDeadline = rapid.IntRange(0, 2).Draw(rt, "pubDeadline") == 2
	nh := rapid.IntRange(1, 3).Draw(rt, "nHandlers")
	for i := 0; i < nh; i++ {
		sc.Handlers = append(sc.Handlers, SubOpts{Async: rapid.IntRange(0, 2).Draw(rt, "async") == 2, Seq: rapid.IntRange(0, 3).Draw(rt, "seq") == 3, Once: rapid.IntRange(0, 5).Draw(rt, "once") == 5})
	}
	sc.Tape = core.DrawTape(rt, 300)
	return sc
}

type alertEvent struct{ ID int }

type c13ErrCall struct {
	ID   int
	OK   bool
	Type reflect.Type
	Err  error
}

func (sc *C13Scenario) Execute(t *testing.T) *core.Outcome {
	out := &core.Outcome{}
	var rec core.Recorder
	var errCalls []c13ErrCall
	pubOf := map[int]C13Pub{}
	for _, l := range sc.Pubs {
		for _, p := range l {
			pubOf[p.ID] = p
		}
	}
	sh := shapes[0]
	var fc *fcore
	returned := map[int]bool{}
	handled := map[[2]int]int{}
	var stored []*eventbus.StoredEvent
	appendedIDs := []int{} // ids whose Append became durable, in log order
	outcomes := map[int][]string{} // event id -> what each Append call for it was told
	var maxBlock time.Duration
	stalled := 0
	body := func() {
		env := newStoreEnv()
		defer env.Close()
		inner, err := env.openStore(sc.Store, "main")
		if err != nil {
			out.HarnessErr = err.Error()
			return
		}
		if srv := env.servers["main"]; srv != nil {
			for _, k := range sc.StallPost {
				srv.DelayPost[srv.nPost+k] = 200 * time.Millisecond
			}
			defer func() { stalled = srv.Fired["post-delayed"] }()
		}
		fc = newFcore(inner, sc.Plan, &rec)
		fc.OnAppend = func(off eventbus.Offset, ev *eventbus.Event) {
			if ev.Type == eventbus.EventType(alertEvent{}) {
				return
			}
			if id, ok := storedID(ev.Data); ok {
				appendedIDs = append(appendedIDs, id)
			}
		}
		fc.OnAppendResult = func(ev *eventbus.Event, outcome string) {
			if ev.Type == eventbus.EventType(alertEvent{}) {
				return
			}
			if id, ok := storedID(ev.Data); ok {
				outcomes[id] = append(outcomes[id], outcome)
			}
		}
		store := fc.wrap(false)
		var opts []eventbus.Option
		if !sc.StoreLast {
			opts = append(opts, eventbus.WithStore(store))
		}
		var bus *eventbus.EventBus
		var errHandler eventbus.PersistenceErrorHandler
		if sc.ErrHandler {
			errHandler = func(ev any, et reflect.Type, err error) {
				if simrt.Dying() {
					return
				}
				if _, isAlert := ev.(alertEvent); isAlert {
					return
				}
				id, ok := sh.IDOf(ev)
				if raw, isRaw := ev.(json.RawMessage); isRaw {
					n, _ := fmt.Sscanf(string(raw), `{"id":%d,`, &id)
					ok = n == 1 && et == reflect.TypeOf(json.RawMessage{})
					if ok {
						et = sh.RT // normalised: the type check below is per shape
					}
				}
				errCalls = append(errCalls, c13ErrCall{ID: id, OK: ok, Type: et, Err: err})
				rec.Add("err-handler", id, 0, "")
				if sc.Reentrant {
					eventbus.Publish(bus, alertEvent{ID: id})
				}
			}
			if !sc.BySetter {
				opts = append(opts, eventbus.WithPersistenceErrorHandler(errHandler))
			}
		}
		if sc.TimeoutMs > 0 {
			opts = append(opts, eventbus.WithPersistenceTimeout(time.Duration(sc.TimeoutMs)*time.Millisecond))
		}
		if sc.Obs {
			opts = append(opts, eventbus.WithObservability(nopObs{}))
		}
		if sc.StoreLast {
			opts = append(opts, eventbus.WithStore(store))
		}
		bus = eventbus.New(opts...)
		if sc.ErrHandler && sc.BySetter {
			bus.SetPersistenceErrorHandler(errHandler)
		}
		for hi, ho := range sc.Handlers {
			hi := hi
			var so []eventbus.SubscribeOption
			if ho.Async {
				so = append(so, eventbus.Async())
			}
			if ho.Seq {
				so = append(so, eventbus.Sequential())
			}
			if ho.Once {
				so = append(so, eventbus.Once())
			}
			if err := sh.Sub(bus, func(id int) {
				if simrt.Dying() {
					return
				}
				handled[[2]int{hi, id}]++
				rec.Add("handle", hi, id, "")
				simrt.Yield(siteHandler)
			}, so...); err != nil {
				out.HarnessErr = err.Error()
				return
			}
		}
		ctx := context.Background()
		var tasks []*simrt.Task
		for pi, l := range sc.Pubs {
			l := l
			tasks = append(tasks, simrt.GoNamed(fmt.Sprintf("pub%d", pi), func() {
				for _, p := range l {
					rec.Add("pub", p.ID, p.Bad, "")
					ctx := ctx
					if sc.PubDeadline {
						// never cancelled: asynchronous handlers may start after the publish returns
						// (the 10 s timer lives on the bubble's fake clock)
						c, cancel := context.WithTimeout(ctx, 10*time.Second)
						_ = cancel
						ctx = c
					}
					start := time.Now()
					if p.Bad == 4 {
						// a json.RawMessage that is not valid JSON has no JSON encoding either (json.Marshal validates it)
						eventbus.PublishContext(bus, ctx, json.RawMessage(fmt.Sprintf(`{"id":%d,"truncated`, p.ID)))
					} else if p.Bad > 0 {
						eventbus.PublishContext(bus, ctx, mkUnencodable(p.ID, p.Bad))
					} else {
						sh.Pub(bus, ctx, p.ID, p.Variant)
					}
					if d := time.Since(start); d > maxBlock {
						maxBlock = d
					}
					returned[p.ID] = true
					rec.Add("pub-ret", p.ID, 0, "")
				}
			}))
		}
		simrt.Join(tasks...)
		bus.Wait()
		stored, _, err = inner.Read(ctx, eventbus.OffsetOldest, 0)
		if err != nil {
			out.V("store-read-failed", "final Read failed: %v", err)
		}
	}
	rep, herr := core.Sim(t, &sc.Base, nil, body)
	out.Rep = rep
	if out.HarnessErr == "" {
		out.HarnessErr = herr
		if call, hung := storeHang(rep); hung {
			out.HarnessErr = ""
			out.V("store-call-never-returned", "a call into the store did not return although nothing else was runnable and a minute of simulated time had passed: %s", call)
			return out
		}
	}
	if rep == nil || out.HarnessErr != "" {
		return out
	}
	out.LogHash = rec.Hash()
	out.SimTime = rep.FakeDuration
	for k, v := range fc.Fired {
		for i := 0; i < v; i++ {
			out.Fault(k)
		}
	}
	for i := 0; i < stalled; i++ {
		out.Fault("post-stalls-past-timeout")
	}
	if rep.BudgetExceeded {
		out.HarnessErr = "step budget exceeded"
		return out
	}
	for _, p := range rep.Panics {
		out.V("panic-escaped", "publish panicked in %s: %s", p.Task, p.Value)
	}
	if rep.Deadlock {
		out.V("deadlock", "a publish (or Wait) never returned:\n%s", rep.DeadlockInfo)
		return out
	}
	nBad, nFailing := 0, 0
	for id, p := range pubOf {
		if !returned[id] {
			out.V("publish-did-not-return", "publish of event %d did not return", id)
		}
		if p.Bad > 0 {
			nBad++
			out.Fault("unencodable-event")
		}
	}
	// every publish delivers to all its handlers (a Once handler to the first event only)
	for hi, ho := range sc.Handlers {
		n := 0
		for id := range pubOf {
			c := handled[[2]int{hi, id}]
			if c > 1 {
				out.V("delivery-count", "handler %d received event %d %d times", hi, id, c)
			}
			n += c
			if pubOf[id].Bad == 4 {
				if c != 0 {
					out.V("delivery-count", "handler %d received raw event %d", hi, id)
				}
				continue
			}
			if !ho.Once && c != 1 {
				out.V("delivery-lost-on-persistence-failure", "handler %d (%+v) received event %d %d times (unencodable=%v); a persistence failure must not stop delivery", hi, ho, id, c, pubOf[id].Bad > 0)
			}
		}
		typed := 0
		for _, p := range pubOf {
			if p.Bad != 4 {
				typed++
			}
		}
		if ho.Once && typed > 0 && n != 1 {
			out.V("delivery-count", "once handler %d ran %d times over %d publishes of its type", hi, n, typed)
		}
	}
	// Append is attempted exactly once per encodable publish, never for unencodable ones (alerts excluded below)
	durable := map[int]int{}
	for _, id := range appendedIDs {
		durable[id]++
	}
	wantAppendCalls := len(pubOf) - nBad
	alerts := 0
	if sc.Reentrant {
		alerts = len(errCalls)
	}
	if fc.AppendCalls != wantAppendCalls+alerts {
		out.V("append-attempts", "the store's Append was called %d times for %d encodable publishes (+%d alert events): a failed append must not be retried and an unencodable event must not reach the store", fc.AppendCalls, wantAppendCalls, alerts)
	}
	// store contents = exactly the appends that became durable, each once, in order, complete
	var storedIDs []int
	for i, e := range stored {
		if i > 0 && !offLess(stored[i-1].Offset, e.Offset) {
			out.VS("offsets-not-increasing", sc.Store.Kind+":offset-order", "record %d has offset %q after %q", i, e.Offset, stored[i-1].Offset)
		}
		if e.Type == eventbus.EventType(alertEvent{}) {
			continue
		}
		id, ok := storedID(e.Data)
		if !ok {
			out.V("partial-record", "record %d (%q) is not a complete event: %s", i, e.Type, trunc(string(e.Data)))
			continue
		}
		storedIDs = append(storedIDs, id)
		p := pubOf[id]
		if p.Bad > 0 {
			out.V("partial-record", "unencodable event %d left a record in the store", id)
		} else if !jsonEqual(e.Data, sh.Marshal(id, p.Variant)) {
			out.V("partial-record", "record of event %d is %s, expected %s", id, trunc(string(e.Data)), trunc(string(sh.Marshal(id, p.Variant))))
		}
	}
	if fmt.Sprint(storedIDs) != fmt.Sprint(appendedIDs) {
		out.V("log-corrupted", "store holds events %v, the appends that succeeded were %v (in that order)", storedIDs, appendedIDs)
	}
	// failures: reported exactly once each, never for successes
	failing := map[int]bool{}
	lostAck := 0
	for id, p := range pubOf {
		oc := outcomes[id]
		if p.Bad == 0 && len(oc) != 1 {
			out.V("append-attempts", "Append was called %d times for event %d (outcomes %v): exactly one attempt, no retry", len(oc), id, oc)
		}
		if p.Bad > 0 || len(oc) == 0 || oc[0] != "ok" {
			failing[id] = true
			nFailing++
		}
		if len(oc) > 0 && oc[0] == "lost-ack" {
			lostAck++
		}
	}
	if sc.ErrHandler {
		seen := map[int]int{}
		for _, c := range errCalls {
			seen[c.ID]++
			if !c.OK || c.Type != sh.RT || c.Err == nil {
				out.V("error-handler-args", "persistence error handler called with event ok=%v type=%v err=%v", c.OK, c.Type, c.Err)
			}
		}
		for id := range pubOf {
			want := 0
			if failing[id] {
				want = 1
			}
			if seen[id] != want {
				out.V("error-handler-count", "persistence error handler called %d times for event %d (append outcomes %v, unencodable=%v), expected %d", seen[id], id, outcomes[id], pubOf[id].Bad > 0, want)
			}
		}
	}
	// the stores used here are fault-free apart from the plan: an append the plan did not touch must succeed
	// ("publishes after a failure are persisted normally")
	for _, e := range fc.InnerAppendErrs {
		out.V("append-failed-without-fault", "[%s] the store rejected an append that no injected fault touched: %s", sc.Store, e)
	}
	// a timed-out Append saw its context expire, and the publish was not held beyond the timeout
	for _, sawErr := range fc.AppendCtxErrAtReturn {
		if !sawErr {
			out.V("timeout-not-applied", "a blocked Append returned without its context being done")
		}
	}
	if n := fc.Fired["append-blocks-until-deadline"] + stalled; n > 0 {
		limit := time.Duration(n*sc.TimeoutMs)*time.Millisecond + time.Millisecond
		if maxBlock > limit {
			out.V("timeout-not-applied", "a publish blocked for %v with a persistence timeout of %d ms", maxBlock, sc.TimeoutMs)
		}
	}
	out.Nontrivial = nFailing > 0 || lostAck > 0
	out.Summary = fmt.Sprintf("store %s, %d publishes (%d unencodable), plan %+v, timeout %dms", sc.Store, len(pubOf), nBad, sc.Plan, sc.TimeoutMs)
	return out
}

var propC13 = &core.Property{ID: "C13", Gen: genC13, New: func() core.Scenario { return &C13Scenario{} }}

func TestC13(t *testing.T) { core.RunProperty(t, propC13) }
