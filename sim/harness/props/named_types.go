package props

// A quarter of the registry event types (E30..E39) carry a custom persisted name (ebu.TypeNamer). The bus keys its
// registry, shards and hooks by the Go type, never by this name, so for a correct ebu these methods change nothing in
// C01..C08 and C20; they are here because bookkeeping that reaches a shard through the *name* (retiring fired Once
// handlers, Clear, HasHandlers) looks right for every type whose name is its Go type string and wrong only for
// these. Each name hashes (FNV-1a & 31) to a shard other than the one of "props.Enn". E38 and E39 name themselves
// after their value, so consecutive publishes of one type carry different names.
func (E30) EventTypeName() string { return "custom.e30.v1" }
func (E31) EventTypeName() string { return "custom.e31.v1" }
func (E32) EventTypeName() string { return "custom.e32.v1" }
func (E33) EventTypeName() string { return "custom.e33.v1" }
func (E34) EventTypeName() string { return "custom.e34.v1" }
func (E35) EventTypeName() string { return "custom.e35.v1" }
func (E36) EventTypeName() string { return "custom.e36.v1" }
func (E37) EventTypeName() string { return "custom.e37.v1" }
func (e E38) EventTypeName() string {
	return [...]string{"custom.e38.k0", "custom.e38.k1", "custom.e38.k2"}[((e.ID%3)+3)%3]
}
func (e E39) EventTypeName() string {
	return [...]string{"custom.e39.k0", "custom.e39.k1", "custom.e39.k2"}[((e.ID%3)+3)%3]
}
