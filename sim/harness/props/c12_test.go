package props

import (
	"time"
	"context"
	"fmt"
	"sort"
	"strings"
	"testing"

	eventbus "github.com/jilio/ebu"
	"pgregory.net/rapid"

	"ebusim/core"
	"simshim/simrt"
)

// C12 — a resumable subscription sees each event of its type once across restarts.

type C12Step struct {
	Kind  string `json:"kind"` // pub, sub, yield
	Shape int    `json:"shape,omitempty"`
	Sub   int    `json:"sub,omitempty"` // subscription index (for "sub")
}

type C12Inc struct {
	Publisher  []C12Step `json:"publisher"`  // pub / yield steps
	Subscriber []C12Step `json:"subscriber"` // sub / yield steps, run concurrently with the publisher
	CrashAtOp  int       `json:"crash_at_op"` // the incarnation dies right after (or before) its m-th store operation (-1: clean stop)
	CrashBefore bool     `json:"crash_before,omitempty"`
	// SubFirst: the publisher starts only when the subscriber's steps are done (the service catches up, then
	// takes traffic) - no publish overlaps a SubscribeWithReplay call in this incarnation
	SubFirst bool `json:"sub_first,omitempty"`
}

type C12Fault struct {
	Op   string `json:"op"`   // append read save load
	K    int    `json:"k"`    // the k-th call of that kind in the whole run
	Lost bool   `json:"lost"` // effect happens, acknowledgement lost (append/save only)
}

type C12Scenario struct {
	core.Base
	Store  StoreCfg  `json:"store"`
	Subs   []int     `json:"subs"` // subscription i is for event shape Subs[i]
	Incs   []C12Inc  `json:"incs"`
	Fault  *C12Fault `json:"fault,omitempty"`
	Yields int       `json:"yields"`
	Batch  int       `json:"batch,omitempty"` // WithReplayBatchSize when the store is paged
	// SepSub: subscription offsets live in a store of their own (a second MemoryStore that survives the
	// restarts), given with WithSubscriptionStore - before WithStore (1) or after it (2). The event store
	// implements SubscriptionStore too; it must then never be asked to save or load an offset.
	SepSub int `json:"sep_sub,omitempty"`
	// TimeoutMs: the bus has a persistence timeout of this many (simulated) milliseconds, the stores refuse
	// offset operations on a dead context (as a database driver does), and publishers' "sleep" steps let 3 timeouts
	// pass. The timeout bounds each append; the subscription's position keeps being saved however old it is.
	TimeoutMs int `json:"timeout_ms,omitempty"`
	// Reenter: a subscription's handler, when it is handed an event whose id is 1 modulo 3 by LIVE delivery,
	// publishes one follow-up event of the same shape on the same bus before it returns (a saga step). The
	// follow-up is an event like any other: persisted, delivered once, and the saved position never goes back.
	// Only with a single subscription.
	Reenter bool `json:"reenter,omitempty"`
}

// c12SubID: the two subscription ids differ only in letter case - different ids all the same
func c12SubID(si int) string { return []string{"Sub-x", "sub-x", "SUB-X"}[si%3] }

func genC12(rt *rapid.T) core.Scenario {
	sc := &C12Scenario{Store: StoreCfg{Kind: rapid.SampledFrom([]string{"mem", "mem", "mem", "sqlite"}).Draw(rt, "store")}}
	sc.SepSub = rapid.SampledFrom([]int{0, 0, 0, 1, 2}).Draw(rt, "sepSub")
	if sc.Store.Kind == "sqlite" {
		sc.Store.StreamBatch = rapid.SampledFrom([]int{0, 0, 2}).Draw(rt, "streamBatch")
		sc.Store.Instr = rapid.IntRange(0, 3).Draw(rt, "instr") == 3
	}
	if rapid.IntRange(0, 4).Draw(rt, "paged") == 4 {
		sc.Store.HideStreamer = true
		sc.Store.ShortReads = rapid.Bool().Draw(rt, "shortReads")
		sc.Batch = rapid.SampledFrom([]int{0, 2, 3}).Draw(rt, "replayBatch")
	}
	if rapid.IntRange(0, 3).Draw(rt, "timeout") == 3 {
		sc.TimeoutMs = 20
	}
	reenter := rapid.IntRange(0, 3).Draw(rt, "reenter") == 3
	long := rapid.IntRange(0, 5).Draw(rt, "long") == 5 // histories that push the log past 10 entries
	ns := rapid.IntRange(1, 2).Draw(rt, "nSubs")
	for i := 0; i < ns; i++ {
		sc.Subs = append(sc.Subs, rapid.IntRange(0, numStaticShapes-1).Draw(rt, "subShape"))
	}
	// (one subscription only: a nested publish reaches every handler of the type before the outer publish has reached
	// the later ones, so a second subscription would legitimately see the follow-up first)
	sc.Reenter = reenter && ns == 1
	ni := rapid.IntRange(1, 3).Draw(rt, "nIncarnations")
	for n := 0; n < ni; n++ {
		inc := C12Inc{CrashAtOp: -1}
		np := rapid.IntRange(0, 6).Draw(rt, "nPubSteps")
		if long {
			np = rapid.IntRange(6, 14).Draw(rt, "nPubStepsLong")
		}
		for i := 0; i < np; i++ {
			if rapid.IntRange(0, 3).Draw(rt, "pubYield") == 3 {
				inc.Publisher = append(inc.Publisher, C12Step{Kind: "yield"})
				if sc.TimeoutMs > 0 && rapid.Bool().Draw(rt, "sleepInstead") {
					inc.Publisher[len(inc.Publisher)-1].Kind = "sleep"
				}
			} else {
				// publish mostly the subscribed shapes
				shape := sc.Subs[rapid.IntRange(0, len(sc.Subs)-1).Draw(rt, "pubSub")]
				if rapid.IntRange(0, 3).Draw(rt, "otherShape") == 3 {
					shape = rapid.IntRange(0, numStaticShapes-1).Draw(rt, "pubShape")
				}
				inc.Publisher = append(inc.Publisher, C12Step{Kind: "pub", Shape: shape})
			}
		}
		nsub := rapid.IntRange(0, 3).Draw(rt, "nSubSteps")
		usedSub := map[int]bool{} // a subscription id is used at most once per process incarnation
		for i := 0; i < nsub; i++ {
			if rapid.IntRange(0, 2).Draw(rt, "subYield") == 2 {
				inc.Subscriber = append(inc.Subscriber, C12Step{Kind: "yield"})
			} else if w := rapid.IntRange(0, ns-1).Draw(rt, "which"); !usedSub[w] {
				usedSub[w] = true
				inc.Subscriber = append(inc.Subscriber, C12Step{Kind: "sub", Sub: w})
			}
		}
		inc.SubFirst = rapid.IntRange(0, 2).Draw(rt, "subFirst") == 2
		if rapid.IntRange(0, 1).Draw(rt, "crashes") == 1 {
			inc.CrashAtOp = rapid.IntRange(0, 25).Draw(rt, "crashAtOp")
			inc.CrashBefore = rapid.IntRange(0, 3).Draw(rt, "crashBefore") == 3
		}
		sc.Incs = append(sc.Incs, inc)
	}
	if rapid.IntRange(0, 2).Draw(rt, "fault") == 2 {
		opsKinds := []string{"append", "read", "save", "load"}
		if sc.Store.Kind == "sqlite" {
			// additionally: the k-th SQL statement that writes the subscription table fails inside the driver
			opsKinds = append(opsKinds, "sql-save", "sql-save", "sql-load", "sql-load")
		}
		f := &C12Fault{Op: rapid.SampledFrom(opsKinds).Draw(rt, "faultOp"), K: rapid.IntRange(0, 8).Draw(rt, "faultK")}
		if f.Op == "append" || f.Op == "save" {
			f.Lost = rapid.Bool().Draw(rt, "lostAck")
		}
		sc.Fault = f
	}
	sc.Yields = rapid.IntRange(0, 1).Draw(rt, "yields")
	sc.Tape = core.DrawTape(rt, 400)
	return sc
}

type c12Delivery struct {
	Sub, Ev, Inc int
	Stamp        int64
}

type c12Save struct {
	ID    string
	Off   eventbus.Offset
	Inc   int
	Stamp int64
}

func (sc *C12Scenario) Execute(t *testing.T) *core.Outcome {
	out := &core.Outcome{}
	var rec core.Recorder
	kind := sc.Store.Kind
	var deliveries []c12Delivery
	var saves []c12Save
	savedAtStart := map[int]map[string]eventbus.Offset{} // incarnation -> sub id -> durable offset when it started
	pubInc := map[int]int{}                                // event id -> incarnation that published it
	pubShape := map[int]int{}
	pubDuringSub := map[int]map[int]bool{} // event id -> sub index -> a SubscribeWithReplay for that sub was running when it was published
	type span struct{ a, b int64 }
	pubSpan := map[int]span{}      // event id -> stamps of its Publish call and return
	subSpans := map[int][]span{}   // sub index -> stamps of every SubscribeWithReplay call and return
	subActive := map[int]bool{}            // sub index -> SubscribeWithReplay currently running (this incarnation)
	subEstablished := map[[2]int]bool{}    // (inc, sub) -> SubscribeWithReplay returned nil while alive
	var log []*eventbus.StoredEvent
	crashed := map[int]bool{}
	faultFired := false
	shortReads := 0
	damaged := map[int]string{}
	replayedPVal = func(e PVal) {
		if !pvalIntact(e) {
			damaged[e.ID] = trunc(string(mustJSON(e)))
		}
	}
	defer func() { replayedPVal = nil }()
	body := func() {
		env := newStoreEnv()
		defer env.Close()
		sf := &sqlFaults{FailNextAtRow: -1, FailQueryAt: -1, FailCloseAt: -1, Fired: map[string]int{}}
		if kind == "sqlite" {
			if sc.Fault != nil && sc.Fault.Op == "sql-save" {
				sf.FailSubExecAt = sc.Fault.K + 1
			}
			if sc.Fault != nil && sc.Fault.Op == "sql-load" {
				// the k-th SELECT on the subscription table fails inside the driver: LoadOffset cannot know the position
				sf.FailSubQueryAt = sc.Fault.K%4 + 1
			}
			defer installFaultySQLite(sf)()
		}
		ctx := context.Background()
		durable := map[string]eventbus.Offset{}
		ops := 0
		nextEv := 0
		plan := FaultPlan{}
		if f := sc.Fault; f != nil {
			l := []int{f.K}
			switch {
			case f.Op == "append" && f.Lost:
				plan.LostAckAppend = l
			case f.Op == "append":
				plan.FailAppend = l
			case f.Op == "read":
				plan.FailRead = l
			case f.Op == "save" && f.Lost:
				plan.LostAckSave = l
			case f.Op == "save":
				plan.FailSave = l
			case f.Op == "load":
				plan.FailLoad = l
			}
		}
		counts := map[string]int{} // fault addressing is global over the run: share the counters across incarnations
		fired := map[string]int{}
		var memInner eventbus.EventStore
		var subInner *eventbus.MemoryStore
		if sc.SepSub > 0 {
			subInner = eventbus.NewMemoryStore()
		}
		offsetOpsOnEventStore := 0
		var doPublish func(shape int)
		followUp := map[int]bool{} // ids of events published from inside a handler (they do not breed)
		runInc := func(n int, inc C12Inc, final bool) {
			var inner eventbus.EventStore
			var err error
			if kind == "mem" {
				if memInner == nil {
					memInner, _ = env.openStore(sc.Store, "main")
				}
				inner = memInner
			} else {
				inner, err = env.openStore(sc.Store, "main") // re-opens the same database file
				if err != nil {
					out.HarnessErr = "open: " + err.Error()
					return
				}
			}
			fc := newFcore(inner, plan, &rec)
			fc.n, fc.Fired = counts, fired
			if final {
				fc.plan = FaultPlan{}
				sf.FailSubExecAt = 0
				sf.FailSubQueryAt = 0
			}
			fc.OnSave = func(id string, off eventbus.Offset) {
				durable[id] = off
				saves = append(saves, c12Save{id, off, n, rec.Add("durable-save", n, 0, id+"="+string(off))})
			}
			fc.OnOp = func() {
				m := ops
				ops++
				if !final && inc.CrashAtOp >= 0 && m == inc.CrashAtOp && !crashed[n] {
					crashed[n] = true
					rec.Add("crash", n, m, "")
					simrt.KillNow(n)
				}
			}
			fc.CrashBefore = inc.CrashBefore
			savedAtStart[n] = map[string]eventbus.Offset{}
			for k, v := range durable {
				savedAtStart[n][k] = v
			}
			fc.ShortReads = sc.Store.ShortReads
			fc.HonourCtx = sc.TimeoutMs > 0
			bopts := []eventbus.Option{eventbus.WithStore(fc.wrap(sc.Store.HideStreamer))}
			if sc.TimeoutMs > 0 {
				bopts = append(bopts, eventbus.WithPersistenceTimeout(time.Duration(sc.TimeoutMs)*time.Millisecond))
			}
			if sc.SepSub > 0 {
				// the decorator around the separate offset store shares the crash hook and the bookkeeping; faults of
				// the plan that address SaveOffset / LoadOffset follow the offsets to it
				fc2 := newFcore(subInner, fc.plan, &rec)
				fc2.n, fc2.Fired = counts, fired
				fc2.OnSave, fc2.OnOp, fc2.CrashBefore = fc.OnSave, fc.OnOp, fc.CrashBefore
				fc2.HonourCtx = fc.HonourCtx
				fc.plan.FailSave, fc.plan.LostAckSave, fc.plan.FailLoad = nil, nil, nil
				fc.OnSave = func(id string, off eventbus.Offset) { offsetOpsOnEventStore++ }
				fc.OnLoad = func(id string) { offsetOpsOnEventStore++ }
				subOpt := eventbus.WithSubscriptionStore(fsSubOnly{fc2})
				if sc.SepSub == 1 {
					bopts = append([]eventbus.Option{subOpt}, bopts...)
				} else {
					bopts = append(bopts, subOpt)
				}
			}
			if sc.Batch > 0 {
				bopts = append(bopts, eventbus.WithReplayBatchSize(sc.Batch))
			}
			bus := eventbus.New(bopts...)
			for k := range subActive {
				delete(subActive, k)
			}
			doPublish = func(shape int) {
				nextEv++
				id := nextEv
				pubInc[id], pubShape[id] = n, shape
				pubDuringSub[id] = map[int]bool{}
				for si, a := range subActive {
					if a {
						pubDuringSub[id][si] = true
					}
				}
				a := rec.Add("publish", id, shape, "")
				shapes[shape].Pub(bus, ctx, id, id%6)
				pubSpan[id] = span{a, rec.Add("publish-ret", id, 0, "")}
			}
			subscribe := func(si int) {
				subActive[si] = true
				callStamp := rec.Add("subscribe-call", si, n, "")
				err := shapes[sc.Subs[si]].SubReplay(ctx, bus, c12SubID(si), func(ev int) {
					if simrt.Dead() || simrt.Dying() {
						return
					}
					deliveries = append(deliveries, c12Delivery{si, ev, n, rec.Add("deliver", si, ev, "")})
					for i := 0; i < sc.Yields; i++ {
						simrt.Yield(siteHandler)
					}
					if sc.Reenter && !final && ev%3 == 1 && !subActive[si] && !followUp[ev] && len(followUp) < 6 {
						followUp[nextEv+1] = true
						doPublish(sc.Subs[si])
					}
				})
				subActive[si] = false
				if err == nil && !simrt.Dead() {
					subEstablished[[2]int{n, si}] = true
				}
				subSpans[si] = append(subSpans[si], span{callStamp, rec.Add("subscribe-ret", si, n, fmt.Sprint(err != nil))})
			}
			if final {
				for si := range sc.Subs {
					subscribe(si)
				}
				bus.Wait()
				return
			}
			publisher := func() {
				for _, st := range inc.Publisher {
					if st.Kind == "yield" {
						simrt.Yield(siteClient)
						continue
					}
					if st.Kind == "sleep" {
						simrt.Sleep(3 * time.Duration(sc.TimeoutMs) * time.Millisecond)
						continue
					}
					doPublish(st.Shape)
				}
				bus.Wait()
			}
			var pub *simrt.Task
			if !inc.SubFirst {
				pub = simrt.Spawn(fmt.Sprintf("inc%d-publisher", n), n, publisher)
			}
			sub := simrt.Spawn(fmt.Sprintf("inc%d-subscriber", n), n, func() {
				for _, st := range inc.Subscriber {
					if st.Kind == "yield" {
						simrt.Yield(siteClient)
						continue
					}
					subscribe(st.Sub)
				}
			})
			if inc.SubFirst {
				simrt.Join(sub)
				if crashed[n] {
					return
				}
				pub = simrt.Spawn(fmt.Sprintf("inc%d-publisher", n), n, publisher)
			}
			simrt.Join(pub, sub)
		}
		for n, inc := range sc.Incs {
			runInc(n+1, inc, false)
			if out.HarnessErr != "" {
				return
			}
		}
		runInc(len(sc.Incs)+1, C12Inc{CrashAtOp: -1}, true)
		if sc.SepSub > 0 && offsetOpsOnEventStore > 0 {
			out.V("offsets-in-the-wrong-store", "[%s] the bus was given a subscription store of its own (WithSubscriptionStore %s WithStore), yet the event store was asked to save or load an offset %d times", sc.Store, map[int]string{1: "before", 2: "after"}[sc.SepSub], offsetOpsOnEventStore)
		}
		if n := fired["offset-op-with-dead-context"]; n > 0 {
			// the subscriber's own context is the background context: a dead one was made by the bus
			out.V("offset-saved-with-dead-context", "[%s] the bus called SaveOffset / LoadOffset %d times with a context that was already cancelled or past its deadline, although the subscriber's context is live: the position cannot be saved (persistence timeout %d ms)", sc.Store, n, sc.TimeoutMs)
		}
		delete(fired, "offset-op-with-dead-context")
		for k, v := range fired {
			if v > 0 && k != "short-read" {
				faultFired = true
			}
		}
		shortReads = fired["short-read"]
		if sf.Fired["sql-subscription-write-fails"]+sf.Fired["sql-subscription-read-fails"] > 0 {
			faultFired = true
		}
		var err error
		st := memInner
		if kind != "mem" {
			st, err = env.openStore(sc.Store, "main")
			if err != nil {
				out.HarnessErr = err.Error()
				return
			}
		}
		log, _, err = st.Read(ctx, eventbus.OffsetOldest, 0)
		if err != nil {
			out.HarnessErr = "final read: " + err.Error()
		}
	}
	rep, herr := core.Sim(t, &sc.Base, nil, body)
	out.Rep = rep
	if out.HarnessErr == "" {
		out.HarnessErr = herr
		if call, hung := storeHang(rep); hung {
			out.HarnessErr = ""
			out.V("store-call-never-returned", "a call into the store did not return although nothing else was runnable and a minute of simulated time had passed: %s", call)
			return out
		}
	}
	if rep == nil || out.HarnessErr != "" {
		return out
	}
	out.LogHash = rec.Hash()
	if rep.BudgetExceeded {
		out.HarnessErr = "step budget exceeded"
		return out
	}
	for _, p := range rep.Panics {
		out.V("escaped-panic", "%s: %s\n%s", p.Task, p.Value, p.Stack)
	}
	if rep.Deadlock {
		out.V("deadlock", "%s", rep.DeadlockInfo)
		return out
	}
	for n := range crashed {
		_ = n
		out.Fault("process-crash-at-store-op")
	}
	if len(damaged) > 0 {
		id := -1
		for k := range damaged {
			if id < 0 || k < id {
				id = k
			}
		}
		out.V("delivered-value-differs", "[%s] a subscription was handed event %d as %s, which is not what decoding the stored event yields (%s)", sc.Store, id, damaged[id], trunc(string(mustJSON(mkPVal(id, id%6)))))
	}
	if shortReads > 0 {
		out.Probe("store-returned-short-pages")
	}
	if faultFired && sc.Fault != nil {
		out.Fault("store-op-" + sc.Fault.Op + map[bool]string{true: "-lost-ack", false: "-fails"}[sc.Fault.Lost])
	}
	out.Nontrivial = len(crashed) > 0 || faultFired || len(sc.Incs) > 1
	// log positions
	pos := map[eventbus.Offset]int{eventbus.OffsetOldest: 0}
	posOfEv := map[int]int{}
	for i, e := range log {
		pos[e.Offset] = i + 1
		if id, ok := storedID(e.Data); ok {
			posOfEv[id] = i + 1
		}
	}
	nInc := len(sc.Incs) + 1
	// a publish "overlaps" a subscription if its call..return interval intersects a SubscribeWithReplay call..return interval
	for ev, ps := range pubSpan {
		for si, spans := range subSpans {
			for _, ss := range spans {
				if ps.a < ss.b && ss.a < ps.b {
					pubDuringSub[ev][si] = true
				}
			}
		}
	}
	for si, shapeIdx := range sc.Subs {
		subID := c12SubID(si)
		feat := func(ev int, extra ...string) string {
			var f []string
			for _, e := range extra {
				if e != "" {
					f = append(f, e)
				}
			}
			sort.Strings(f)
			return strings.Join(f, "+")
		}
		byInc := map[int][]c12Delivery{}
		count := map[int]int{}
		firstInc := map[int]int{}
		for _, d := range deliveries {
			if d.Sub != si {
				continue
			}
			byInc[d.Inc] = append(byInc[d.Inc], d)
			if _, ok := posOfEv[d.Ev]; !ok {
				continue // an event whose append failed: delivered live, never persisted
			}
			if pubShape[d.Ev] != shapeIdx {
				out.V("wrong-type-delivered", "subscription %s (shape %s) received event %d of shape %s", subID, shapes[shapeIdx].Name, d.Ev, shapes[pubShape[d.Ev]].Name)
			}
			count[d.Ev]++
			if _, ok := firstInc[d.Ev]; !ok {
				firstInc[d.Ev] = d.Inc
			}
		}
		// no loss: every persisted event of the subscribed type is delivered at least once by the end
		var evIDs []int
		for ev := range posOfEv {
			evIDs = append(evIDs, ev)
		}
		sort.Ints(evIDs)
		for _, ev := range evIDs {
			p := posOfEv[ev]
			if pubShape[ev] != shapeIdx || count[ev] > 0 {
				continue
			}
			var extra []string
			if pubDuringSub[ev][si] {
				// published while SubscribeWithReplay was running: lost for good only if a later live delivery moved the cursor past it
				laterLive := false
				for _, d := range byInc[pubInc[ev]] {
					// (the live delivery of a later event whose own append failed moves the cursor just the same:
					// the subscription saves the bus's last persisted offset after every live delivery)
					_, persisted := posOfEv[d.Ev]
					if posOfEv[d.Ev] > p || (!persisted && pubInc[d.Ev] == pubInc[ev] && d.Ev > ev) {
						laterLive = true
					}
				}
				if laterLive {
					extra = append(extra, "published-during-subscribe+later-live-delivery")
				} else {
					extra = append(extra, "published-during-subscribe")
				}
			}
			out.VS("event-lost", "event-lost/"+feat(ev, extra...), "[%s] subscription %s never received persisted event %d (log position %d, published in incarnation %d; crashed incarnations %v; fault %+v)", sc.Store, subID, ev, p, pubInc[ev], keys(crashed), sc.Fault)
		}
		for n := 1; n <= nInc; n++ {
			ds := byInc[n]
			seen := map[int]bool{}
			last := 0
			startPos, known := pos[savedAtStart[n][subID]]
			for _, d := range ds {
				p, persisted := posOfEv[d.Ev]
				if !persisted {
					continue
				}
				if seen[d.Ev] {
					sg := "delivered-twice"
					if pubDuringSub[d.Ev][si] {
						sg = "delivered-twice/published-during-subscribe"
					}
					out.VS("delivered-twice-in-one-run", sg, "[%s] subscription %s received event %d twice in incarnation %d (published while SubscribeWithReplay was running: %v)", sc.Store, subID, d.Ev, n, pubDuringSub[d.Ev][si])
				}
				seen[d.Ev] = true
				if p < last {
					out.V("out-of-log-order", "[%s] subscription %s received event %d (log position %d) after an event at position %d in incarnation %d", sc.Store, subID, d.Ev, p, last, n)
				}
				last = p
				// exactly once overall: without any crash or store fault in the run, an event handled in an
				// earlier incarnation (which then stopped cleanly) is never delivered again
				if firstInc[d.Ev] < n && len(crashed) == 0 && !faultFired && !pubDuringSub[d.Ev][si] {
					out.VS("redelivered-after-clean-stop", "redelivered-clean", "[%s] subscription %s received event %d (log position %d) in incarnation %d and again in incarnation %d, although no process died and no store operation failed in this history (saved offset at the start of incarnation %d: %q)", sc.Store, subID, d.Ev, p, firstInc[d.Ev], n, n, savedAtStart[n][subID])
				}
				// bounded redelivery
				if firstInc[d.Ev] < n && known && p <= startPos {
					out.VS("redelivered-saved-event", "redelivered/"+feat(d.Ev), "[%s] subscription %s received event %d (log position %d) again in incarnation %d although its saved offset at the start of that incarnation was already at position %d (fault %+v)", sc.Store, subID, d.Ev, p, n, startPos, sc.Fault)
				}
			}
		}
		// monotone cursor
		prev := 0
		for _, s := range saves {
			if s.ID != subID {
				continue
			}
			p, ok := pos[s.Off]
			if !ok {
				out.V("saved-unknown-offset", "[%s] offset %q saved for %s is not the offset of any stored event", sc.Store, s.Off, subID)
				continue
			}
			if p < prev {
				extra := ""
				if sc.Fault != nil && sc.Fault.Op == "append" && sc.Fault.Lost && faultFired {
					extra = "append-acknowledgement-lost"
				}
				out.VS("cursor-moved-backwards", "cursor-regress/"+feat(0, extra), "[%s] saved offset of %s moved backwards from log position %d to %d (%q) in incarnation %d (fault %+v)", sc.Store, subID, prev, p, s.Off, s.Inc, sc.Fault)
			}
			prev = p
		}
		// independence: an incarnation that never touched this subscription leaves its saved offset alone
		for n := 1; n < nInc; n++ {
			touched := false
			for _, st := range sc.Incs[n-1].Subscriber {
				if st.Kind == "sub" && st.Sub == si {
					touched = true
				}
			}
			// a live handler established in this incarnation also counts; none can exist without a "sub" step
			if !touched && savedAtStart[n+1][subID] != savedAtStart[n][subID] {
				out.V("subscriptions-not-independent", "[%s] saved offset of %s changed in incarnation %d which never used that subscription", sc.Store, subID, n)
			}
		}
	}
	out.Summary = fmt.Sprintf("store %s, %d subs, %d incarnations (+final), crashes %v, fault %+v, %d deliveries, %d durable saves", sc.Store, len(sc.Subs), len(sc.Incs), keys(crashed), sc.Fault, len(deliveries), len(saves))
	return out
}

func keys(m map[int]bool) []int {
	var k []int
	for x := range m {
		k = append(k, x)
	}
	sort.Ints(k)
	return k
}

// c12Grid: restart histories built by hand. Generation 1 subscribes and publishes, generation 2 only writes
// (the subscriber is down), generation 3 is a fresh bus that catches up first and then publishes - its first
// append being the one that fails, loses its acknowledgement, or neither; a further generation (the final
// one every run has) resumes and checks. Stores, a separate offset store, and 1-2 events per phase vary.
func c12Grid(tier string, yield func(core.Scenario)) string {
	n := 0
	stores := []StoreCfg{{Kind: "mem"}, {Kind: "sqlite"}}
	// mix: the two subscriptions are for different event shapes and the publishers alternate between the shapes, so
	// the two subscriptions' positions in the log differ; the fresh bus's first publish is then of the second shape
	pubs := func(k int, mix bool, first int) []C12Step {
		var l []C12Step
		for i := 0; i < k; i++ {
			sh := 0
			if mix {
				sh = (first + i) % 2
			}
			l = append(l, C12Step{Kind: "pub", Shape: sh})
		}
		return l
	}
	for _, st := range stores {
		for _, sep := range []int{0, 1} {
			for _, mix := range []bool{false, true} {
				for a := 1; a <= 2; a++ {
					for b := 1; b <= 2; b++ {
						for c := 1; c <= 2; c++ {
							for f := 0; f < 5; f++ {
								if mix && f != 1 && f != 4 {
									continue
								}
								sc := &C12Scenario{Store: st, Subs: []int{0, 0}, SepSub: sep}
								sub := []C12Step{{Kind: "sub", Sub: 0}}
								sub3 := sub
								if mix {
									sc.Subs = []int{0, 1}
									sub = []C12Step{{Kind: "sub", Sub: 0}, {Kind: "sub", Sub: 1}}
									sub3 = sub
								}
								if f == 4 {
									sub3 = []C12Step{{Kind: "sub", Sub: 0}, {Kind: "sub", Sub: 1}} // a second id joins on the fresh bus
								}
								sc.Incs = []C12Inc{
									{Publisher: pubs(a+1, mix, 0), Subscriber: sub, CrashAtOp: -1, SubFirst: true},
									{Publisher: pubs(b+1, mix, 0), CrashAtOp: -1},
									{Publisher: pubs(c, mix, 1), Subscriber: sub3, CrashAtOp: -1, SubFirst: true},
								}
								if !mix {
									sc.Incs[0].Publisher, sc.Incs[1].Publisher = pubs(a, false, 0), pubs(b, false, 0)
								}
								na, nb := len(sc.Incs[0].Publisher), len(sc.Incs[1].Publisher)
								switch f {
								case 1, 4:
									sc.Fault = &C12Fault{Op: "append", K: na + nb}
								case 2:
									sc.Fault = &C12Fault{Op: "append", K: na + nb, Lost: true}
								case 3:
									sc.Fault = &C12Fault{Op: "append", K: na + nb + c - 1}
								}
								n++
								yield(sc)
							}
						}
					}
				}
			}
		}
	}
	return fmt.Sprintf("%d explicitly constructed restart histories (subscribe+publish, writer-only generation, fresh bus that catches up and whose first or last append fails or loses its acknowledgement, resume; one or two event shapes)", n)
}

var propC12 = &core.Property{ID: "C12", Gen: genC12, New: func() core.Scenario { return &C12Scenario{} }, Explicit: c12Grid}

func TestC12(t *testing.T) { core.RunProperty(t, propC12) }
