package props

import (
	"context"
	"fmt"
	"reflect"
	"testing"
	"time"

	eventbus "github.com/jilio/ebu"
	"pgregory.net/rapid"

	"ebusim/core"
	"simshim/simrt"
)

// C09 — every publish on a persistent bus is recorded once, before it is delivered.

type C09Pub struct {
	Shape   int `json:"shape"`
	ID      int `json:"id"`
	Variant int `json:"variant"`
	Bad     int `json:"bad,omitempty"` // >0: a PVal that has no JSON encoding (channel / func / NaN): no record is expected for it
}

type C09Scenario struct {
	core.Base
	Opts    []string   `json:"opts"` // bus options in the order given to New; always contains "store"
	Store   StoreCfg   `json:"store"`
	Pubs    [][]C09Pub `json:"pubs"` // per publisher task
	Async   bool       `json:"async_handlers,omitempty"`
	Handler bool       `json:"handlers"` // subscribe handlers that look their event up in the store
	// TimeoutMs: value of the persistence timeout when that option is used (0 = 1 s). SlowMs: the store does not
	// watch its context and every Append takes this long (simulated time) - longer than a short timeout. The
	// timeout bounds the context given to the store, nothing else: the record still precedes the handlers.
	TimeoutMs int `json:"timeout_ms,omitempty"`
	SlowMs    int `json:"slow_ms,omitempty"`
	// TwoBuses (in-memory store only): a second bus, created with nothing but WithStore of the SAME store,
	// takes the odd-numbered publisher tasks. The two buses share no lock of their own, so the appends of
	// one overlap the appends of the other; the store alone keeps the log in offset order.
	TwoBuses bool `json:"two_buses,omitempty"`
}

// c09ReadAll reads the whole log by following next offsets: a store may hand out the log in pieces however large
// the limit (the durable-streams store returns one server chunk per Read, and exact-size events fill chunks fast).
func c09ReadAll(ctx context.Context, st eventbus.EventStore) ([]*eventbus.StoredEvent, error) {
	var all []*eventbus.StoredEvent
	from := eventbus.OffsetOldest
	for i := 0; i < 1000; i++ {
		evs, next, err := st.Read(ctx, from, 0)
		if err != nil {
			return all, err
		}
		all = append(all, evs...)
		if len(evs) == 0 || next == from {
			break
		}
		from = next
	}
	return all, nil
}

// slowStore is a store that ignores its context and takes its time.
type slowStore struct {
	eventbus.EventStore
	d time.Duration
}

func (s slowStore) Append(ctx context.Context, ev *eventbus.Event) (eventbus.Offset, error) {
	simrt.Sleep(s.d)
	return s.EventStore.Append(context.WithoutCancel(ctx), ev)
}

var c09OptNames = []string{"store", "before", "before-ctx", "after", "after-ctx", "obs", "errhandler", "substore", "batchsize", "panichandler", "timeout"}

func genC09(rt *rapid.T) core.Scenario {
	sc := &C09Scenario{}
	perm := rapid.Permutation(c09OptNames).Draw(rt, "optOrder")
	for _, o := range perm {
		if o == "store" || rapid.IntRange(0, 2).Draw(rt, "use-"+o) > 0 {
			sc.Opts = append(sc.Opts, o)
		}
	}
	sc.Store = StoreCfg{Kind: rapid.SampledFrom([]string{"mem", "mem", "naive", "sqlite", "ds"}).Draw(rt, "store")}
	np := rapid.IntRange(1, 4).Draw(rt, "nPublishers")
	id := 0
	for p := 0; p < np; p++ {
		n := rapid.IntRange(1, 5).Draw(rt, "nPubs")
		var l []C09Pub
		for i := 0; i < n; i++ {
			id++
			pb := C09Pub{Shape: rapid.IntRange(0, len(shapes)-1).Draw(rt, "shape"), ID: id, Variant: rapid.IntRange(0, 5).Draw(rt, "variant")}
			if rapid.IntRange(0, 7).Draw(rt, "unencodable") == 7 {
				pb.Shape, pb.Bad = 0, rapid.IntRange(1, 3).Draw(rt, "badKind")
			}
			l = append(l, pb)
		}
		sc.Pubs = append(sc.Pubs, l)
	}
	if rapid.IntRange(0, 3).Draw(rt, "slow") == 3 {
		sc.TimeoutMs = rapid.SampledFrom([]int{0, 5, 5}).Draw(rt, "timeoutMs")
		sc.SlowMs = rapid.SampledFrom([]int{1, 20}).Draw(rt, "slowMs")
	}
	sc.TwoBuses = sc.Store.Kind == "mem" && np > 1 && rapid.IntRange(0, 2).Draw(rt, "twoBuses") == 2
	sc.Handler = rapid.IntRange(0, 4).Draw(rt, "handlers") > 0
	sc.Async = rapid.IntRange(0, 3).Draw(rt, "async") == 3
	sc.Tape = core.DrawTape(rt, 400)
	return sc
}

func (sc *C09Scenario) Execute(t *testing.T) *core.Outcome {
	out := &core.Outcome{}
	var rec core.Recorder
	total := 0
	pubOf := map[int]C09Pub{}
	nBad := 0
	for _, l := range sc.Pubs {
		for _, p := range l {
			pubOf[p.ID] = p
			if p.Bad > 0 {
				nBad++
			} else {
				total++
			}
		}
	}
	persistErrors := 0
	hookCalls := 0
	body := func() {
		env := newStoreEnv()
		defer env.Close()
		inner, err := env.openStore(sc.Store, "main")
		if err != nil {
			out.HarnessErr = err.Error()
			return
		}
		fc := newFcore(inner, FaultPlan{}, &rec)
		store := fc.wrap(false)
		if sc.SlowMs > 0 {
			store = slowStore{store, time.Duration(sc.SlowMs) * time.Millisecond}
		}
		var opts []eventbus.Option
		for _, o := range sc.Opts {
			switch o {
			case "store":
				opts = append(opts, eventbus.WithStore(store))
			case "before":
				opts = append(opts, eventbus.WithBeforePublish(func(reflect.Type, any) { hookCalls++ }))
			case "before-ctx":
				opts = append(opts, eventbus.WithBeforePublishContext(func(context.Context, reflect.Type, any) { hookCalls++; simrt.Yield(siteHook) }))
			case "after":
				opts = append(opts, eventbus.WithAfterPublish(func(reflect.Type, any) { hookCalls++ }))
			case "after-ctx":
				opts = append(opts, eventbus.WithAfterPublishContext(func(context.Context, reflect.Type, any) { hookCalls++ }))
			case "obs":
				opts = append(opts, eventbus.WithObservability(nopObs{}))
			case "errhandler":
				opts = append(opts, eventbus.WithPersistenceErrorHandler(func(ev any, et reflect.Type, err error) {
					persistErrors++
					if id, ok := shapes[0].IDOf(ev); !ok || pubOf[id].Bad == 0 {
						out.V("persistence-error", "persistence error handler called on a fault-free store for an encodable event: %v", err)
					}
				}))
			case "substore":
				opts = append(opts, eventbus.WithSubscriptionStore(eventbus.NewMemoryStore()))
			case "batchsize":
				opts = append(opts, eventbus.WithReplayBatchSize(3))
			case "panichandler":
				opts = append(opts, eventbus.WithPanicHandler(func(any, reflect.Type, any) {}))
			case "timeout":
				to := time.Second
				if sc.TimeoutMs > 0 {
					to = time.Duration(sc.TimeoutMs) * time.Millisecond
				}
				opts = append(opts, eventbus.WithPersistenceTimeout(to))
			}
		}
		bus := eventbus.New(opts...)
		buses := []*eventbus.EventBus{bus}
		if sc.TwoBuses {
			buses = append(buses, eventbus.New(eventbus.WithStore(store)))
		}
		ctx := context.Background()
		handled := map[int]int{}
		if sc.Handler {
			var so []eventbus.SubscribeOption
			if sc.Async {
				so = append(so, eventbus.Async())
			}
			for si, sh := range shapes {
			  for _, bus := range buses {
				si, sh := si, sh
				err := sh.Sub(bus, func(id int) {
					if simrt.Dying() {
						return
					}
					handled[id]++
					rec.Add("handle", id, si, "")
					// the record of the event being handled must already be readable
					evs, err := c09ReadAll(ctx, store)
					if err != nil {
						out.V("store-read-failed", "Read from inside a handler failed: %v", err)
						return
					}
					found := 0
					for _, e := range evs {
						if sid, ok := storedID(e.Data); ok && sid == id {
							found++
						}
					}
					if pubOf[id].Bad > 0 {
						if found != 0 {
							out.V("record-content", "unencodable event %d left %d records", id, found)
						}
						return
					}
					if found != 1 {
						out.V("not-recorded-before-delivery", "handler of event %d (shape %s, options %v) found %d records of it in the store (%d records in total)", id, sh.Name, sc.Opts, found, len(evs))
					}
				}, so...)
				if err != nil {
					out.HarnessErr = err.Error()
					return
				}
			  }
			}
		}
		var tasks []*simrt.Task
		for pi, l := range sc.Pubs {
			l := l
			bus := buses[pi%len(buses)]
			tasks = append(tasks, simrt.GoNamed(fmt.Sprintf("pub%d", pi), func() {
				for _, p := range l {
					rec.Add("pub", p.ID, p.Shape, "")
					if p.Bad > 0 {
						eventbus.PublishContext(bus, ctx, mkUnencodable(p.ID, p.Bad))
						continue
					}
					shapes[p.Shape].Pub(bus, ctx, p.ID, p.Variant)
				}
			}))
		}
		simrt.Join(tasks...)
		for _, b := range buses {
			b.Wait()
		}
		// after quiescence: exactly N records, offsets distinct and strictly increasing, content round-trips
		evs, err := c09ReadAll(ctx, store)
		if err != nil {
			out.V("store-read-failed", "final Read failed: %v", err)
			return
		}
		if len(evs) != total {
			out.V("record-count", "%d publishes produced %d records (bus options in order: %v)", total, len(evs), sc.Opts)
		}
		seen := map[int]int{}
		for i, e := range evs {
			if i > 0 && !offLess(evs[i-1].Offset, e.Offset) {
				out.VS("offsets-not-increasing", sc.Store.Kind+":offset-order", "record %d has offset %q, not greater than the previous %q", i, e.Offset, evs[i-1].Offset)
			}
			id, ok := storedID(e.Data)
			if !ok {
				out.V("record-content", "record %d (%q) carries no event id: %s", i, e.Type, trunc(string(e.Data)))
				continue
			}
			seen[id]++
			p, known := pubOf[id]
			if !known {
				out.V("record-content", "record %d is for an event %d that was never published", i, id)
				continue
			}
			sh := shapes[p.Shape]
			if e.Type != sh.nameOf(p.ID, p.Variant) {
				out.V("record-type", "event %d (shape %s) recorded under type %q, EventType reports %q", id, sh.Name, e.Type, sh.nameOf(p.ID, p.Variant))
			}
			if !jsonEqual(e.Data, sh.Marshal(p.ID, p.Variant)) {
				out.V("record-content", "event %d recorded as %s, its JSON encoding is %s", id, trunc(string(e.Data)), trunc(string(sh.Marshal(p.ID, p.Variant))))
			}
			if !sh.RoundTrip(e.Data, p.ID, p.Variant) {
				out.V("record-roundtrip", "decoding the record of event %d (shape %s) does not yield the published value", id, sh.Name)
			}
		}
		for id, p := range pubOf {
			if p.Bad > 0 {
				if seen[id] != 0 {
					out.V("record-count", "unencodable event %d has %d records", id, seen[id])
				}
				if sc.Handler && handled[id] != 1 {
					out.V("delivery-count", "unencodable event %d delivered %d times", id, handled[id])
				}
				continue
			}
			if seen[id] != 1 {
				out.V("record-count", "event %d has %d records (bus options in order: %v)", id, seen[id], sc.Opts)
			}
			if sc.Handler && handled[id] != 1 {
				out.V("delivery-count", "event %d delivered %d times", id, handled[id])
			}
		}
	}
	rep, herr := core.Sim(t, &sc.Base, nil, body)
	out.Rep = rep
	if out.HarnessErr == "" {
		out.HarnessErr = herr
		if call, hung := storeHang(rep); hung {
			out.HarnessErr = ""
			out.V("store-call-never-returned", "a call into the store did not return although nothing else was runnable and a minute of simulated time had passed: %s", call)
			return out
		}
	}
	if rep == nil || out.HarnessErr != "" {
		return out
	}
	out.LogHash = rec.Hash()
	out.Nontrivial = rep.Choices > 0 || len(sc.Opts) > 1
	if rep.BudgetExceeded {
		out.HarnessErr = "step budget exceeded"
	}
	for _, p := range rep.Panics {
		out.V("escaped-panic", "%s: %s\n%s", p.Task, p.Value, p.Stack)
	}
	if rep.Deadlock {
		out.V("deadlock", "%s", rep.DeadlockInfo)
	}
	out.Summary = fmt.Sprintf("options %v, store %s, %d publishers, %d publishes", sc.Opts, sc.Store, len(sc.Pubs), total)
	return out
}

var propC09 = &core.Property{ID: "C09", Gen: genC09, New: func() core.Scenario { return &C09Scenario{} }}

func TestC09(t *testing.T) { core.RunProperty(t, propC09) }
