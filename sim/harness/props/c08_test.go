package props

import (
	"context"
	"errors"
	"fmt"
	"reflect"
	"testing"
	"time"

	eventbus "github.com/jilio/ebu"
	ebuotel "github.com/jilio/ebu/otel"
	sdkmetric "go.opentelemetry.io/otel/sdk/metric"
	sdktrace "go.opentelemetry.io/otel/sdk/trace"
	"pgregory.net/rapid"

	"ebusim/core"
	"simshim/simrt"
)

// C08 — cancellation, context propagation and publish hooks behave predictably.

type C08Reg struct {
	Fn       int     `json:"fn"`
	Opts     SubOpts `json:"opts"` // Async, Seq, Filter (no Once here: C04)
	CancelOn int     `json:"cancel_on"` // invocation number on which this handler cancels the publish context (-1: never)
	Yields   int     `json:"yields"`
}

type C08Pub struct {
	ID      int `json:"id"`
	CtxKind int `json:"ctx"` // 0 Publish (no context), 1 live cancellable, 2 already cancelled, 3 deadline that expires in a handler sleep
	// Cause (kinds 1, 2): the context is cancelled with a cause of the caller's own (context.WithCancelCause): Err() is
	// Canceled as for any cancellation, only context.Cause differs. Past (kind 2): the context is dead because its
	// deadline passed before the call instead (Err() is DeadlineExceeded).
	Cause bool `json:"cause,omitempty"`
	Past  bool `json:"past,omitempty"`
}

type C08Scenario struct {
	core.Base
	Type   int      `json:"type"`
	Regs   []C08Reg `json:"regs"`
	Pubs   []C08Pub `json:"pubs"`
	Hooks  int      `json:"hooks"` // bit 0 legacy before, 1 ctx before, 2 legacy after, 3 ctx after
	Obs    bool     `json:"obs,omitempty"`
	// OTel (with Obs): the observability implementation is the bundled OpenTelemetry one on SDK providers,
	// whose hooks return the contexts that handlers receive
	OTel bool `json:"otel,omitempty"`
	ViaAny bool     `json:"via_any,omitempty"`
	SetAPI bool     `json:"set_api,omitempty"` // install the legacy hooks with the Set*Hook methods instead of options
	SetNil bool     `json:"set_nil,omitempty"` // additionally call Set*Hook(nil) for the legacy hooks that are not installed
	// Persist: the bus has a store and a 5 ms persistence timeout; slow handlers (sleeping 10 ms) then outlive
	// it - the timeout belongs to the append, never to the context handlers see.
	Persist bool `json:"persist,omitempty"`
	// Pubs2: a second task publishes these events (ids 1001.., plain Publish or a live context) while the
	// first goes through Pubs; every per-publish rule - each hook exactly once, before any handler / after
	// all synchronous handlers of THAT publish - holds for both publishers' events.
	Pubs2 []C08Pub `json:"pubs2,omitempty"`
	// OnceClear (1 Clear, 2 ClearAll; only without Pubs2): just before the last publish two more handlers are
	// subscribed, after all others: a Once handler, and a handler that clears the event type (or the whole
	// bus) from inside that publish. The publish already holds its handlers, so every rule is unchanged:
	// all handlers run, the fired Once handler has nothing left to be removed from, and the after-publish
	// hooks still run exactly once.
	OnceClear int `json:"once_clear,omitempty"`
}

type c08Key struct{}

var errC08Cause = errors.New("caller's own cancellation cause")

// c08StringKeys: values an application keeps in its context under plain string keys (frowned upon, common all the
// same) - among them names that instrumentation layers like to use for their own bookkeeping
var c08StringKeys = []string{"event.type", "async", "position", "request-id"}

func c08Values(id int) context.Context {
	ctx := context.WithValue(context.Background(), c08Key{}, id)
	for i, k := range c08StringKeys {
		ctx = context.WithValue(ctx, k, id*10+i) //nolint:staticcheck // string keys on purpose
	}
	return ctx
}

// c08SameValues: every value of the publish context is visible, unchanged, in the derived context
func c08SameValues(root, ctx context.Context) bool {
	if root.Value(c08Key{}) == nil {
		return true
	}
	if ctx.Value(c08Key{}) != root.Value(c08Key{}) {
		return false
	}
	for _, k := range c08StringKeys {
		if ctx.Value(k) != root.Value(k) {
			return false
		}
	}
	return true
}

func genC08(rt *rapid.T) core.Scenario {
	sc := &C08Scenario{Type: rapid.IntRange(0, len(allTypes)-1).Draw(rt, "type")}
	n := rapid.IntRange(0, 6).Draw(rt, "nRegs")
	for i := 0; i < n; i++ {
		fn := i
		if rapid.Bool().Draw(rt, "ctxAware") {
			fn = numSites + i
		}
		r := C08Reg{Fn: fn, CancelOn: -1, Yields: rapid.IntRange(0, 2).Draw(rt, "yields")}
		r.Opts.Async = rapid.IntRange(0, 2).Draw(rt, "async") == 2
		r.Opts.Seq = rapid.IntRange(0, 3).Draw(rt, "seq") == 3
		r.Opts.Filter = rapid.SampledFrom([]int{0, 0, 0, 1, 2}).Draw(rt, "filter")
		if rapid.IntRange(0, 2).Draw(rt, "cancels") == 2 {
			r.CancelOn = rapid.IntRange(0, 2).Draw(rt, "cancelOn")
		}
		sc.Regs = append(sc.Regs, r)
	}
	np := rapid.IntRange(1, 5).Draw(rt, "nPubs")
	for i := 0; i < np; i++ {
		sc.Pubs = append(sc.Pubs, C08Pub{ID: (i+1)*2 + rapid.IntRange(0, 1).Draw(rt, "parity"),
			CtxKind: rapid.SampledFrom([]int{0, 1, 1, 1, 2, 2, 3}).Draw(rt, "ctx")})
		if p := &sc.Pubs[len(sc.Pubs)-1]; p.CtxKind == 1 || p.CtxKind == 2 {
			switch rapid.IntRange(0, 3).Draw(rt, "ctxFlavour") {
			case 2:
				p.Cause = true
			case 3:
				p.Past = p.CtxKind == 2
			}
		}
	}
	sc.Hooks = rapid.IntRange(0, 15).Draw(rt, "hooks")
	sc.Obs = rapid.IntRange(0, 4).Draw(rt, "obs") == 4
	sc.OTel = sc.Obs && rapid.Bool().Draw(rt, "otel")
	sc.ViaAny = rapid.IntRange(0, 4).Draw(rt, "viaAny") == 4
	sc.SetAPI = rapid.IntRange(0, 3).Draw(rt, "setAPI") == 3
	sc.SetNil = rapid.IntRange(0, 3).Draw(rt, "setNil") == 3
	sc.Persist = rapid.IntRange(0, 3).Draw(rt, "persist") == 3
	if rapid.IntRange(0, 2).Draw(rt, "second") == 2 {
		n2 := rapid.IntRange(1, 3).Draw(rt, "nPubs2")
		for i := 0; i < n2; i++ {
			sc.Pubs2 = append(sc.Pubs2, C08Pub{ID: 1000 + (i+1)*2 + rapid.IntRange(0, 1).Draw(rt, "parity2"), CtxKind: rapid.IntRange(0, 1).Draw(rt, "ctx2")})
		}
	}
	if len(sc.Pubs2) == 0 && rapid.IntRange(0, 3).Draw(rt, "onceClear") == 3 {
		sc.OnceClear = rapid.IntRange(1, 2).Draw(rt, "clearKind")
	}
	sc.Tape = core.DrawTape(rt, 300)
	return sc
}

func (sc *C08Scenario) allPubs() []C08Pub { return append(append([]C08Pub{}, sc.Pubs...), sc.Pubs2...) }

type c08Inv struct {
	Reg, Ev     int
	Enter, Exit int64
	ValueOK     bool
	ErrAgree    bool
	CtxAware    bool
}

type c08Hook struct {
	Kind    int // 0 legacy before, 1 ctx before, 2 legacy after, 3 ctx after
	Ev      int
	EvOK    bool
	TypeOK  bool
	Stamp   int64
	ValueOK bool
}

func (sc *C08Scenario) Execute(t *testing.T) *core.Outcome {
	out := &core.Outcome{}
	var w *World
	ops := allTypes[sc.Type]
	var invs []*c08Inv
	var hooks []c08Hook
	filterAt := map[[2]int]int64{} // (reg, ev) -> stamp at which the filter finished evaluating
	cancelAt := map[int]int64{}    // ev -> stamp at which its context was cancelled (by a handler, or before the call)
	calls := map[int]int{}
	pubCall, pubRet := map[int]int64{}, map[int]int64{}
	rootCtx := map[int]context.Context{}
	cancelFn := map[int]context.CancelFunc{}
	regOfFn := map[int]int{}
	for i, r := range sc.Regs {
		regOfFn[r.Fn] = i
	}
	onceRuns, cleared, finalCount := 0, 0, -1
	hook := func(kind int, ctx context.Context, et reflect.Type, ev any) {
		if simrt.Dying() {
			return
		}
		id, ok := ops.IDOf(ev)
		h := c08Hook{Kind: kind, Ev: id, EvOK: ok, TypeOK: et == ops.RT, ValueOK: true}
		if ctx != nil {
			if root := rootCtx[id]; root != nil {
				h.ValueOK = c08SameValues(root, ctx)
			}
		}
		h.Stamp = w.Rec.Add(fmt.Sprintf("hook%d", kind), id, 0, "")
		hooks = append(hooks, h)
		simrt.Yield(siteHook)
	}
	body := func() {
		var opts []eventbus.Option
		if sc.Hooks&1 != 0 && !sc.SetAPI {
			opts = append(opts, eventbus.WithBeforePublish(func(et reflect.Type, ev any) { hook(0, nil, et, ev) }))
		}
		if sc.Hooks&2 != 0 {
			opts = append(opts, eventbus.WithBeforePublishContext(func(ctx context.Context, et reflect.Type, ev any) { hook(1, ctx, et, ev) }))
		}
		if sc.Hooks&4 != 0 && !sc.SetAPI {
			opts = append(opts, eventbus.WithAfterPublish(func(et reflect.Type, ev any) { hook(2, nil, et, ev) }))
		}
		if sc.Hooks&8 != 0 {
			opts = append(opts, eventbus.WithAfterPublishContext(func(ctx context.Context, et reflect.Type, ev any) { hook(3, ctx, et, ev) }))
		}
		if sc.Obs && sc.OTel {
			tp := sdktrace.NewTracerProvider()
			mp := sdkmetric.NewMeterProvider(sdkmetric.WithReader(sdkmetric.NewManualReader()))
			o, err := ebuotel.New(ebuotel.WithTracerProvider(tp), ebuotel.WithMeterProvider(mp))
			if err != nil {
				out.HarnessErr = err.Error()
				return
			}
			defer tp.Shutdown(context.Background())
			defer mp.Shutdown(context.Background())
			opts = append(opts, eventbus.WithObservability(o))
		} else if sc.Obs {
			opts = append(opts, eventbus.WithObservability(nopObs{}))
		}
		if sc.Persist {
			opts = append(opts, eventbus.WithStore(eventbus.NewMemoryStore()), eventbus.WithPersistenceTimeout(5*time.Millisecond))
		}
		w = NewWorld(opts...)
		if sc.SetNil {
			if sc.Hooks&1 == 0 {
				w.Bus.SetBeforePublishHook(nil)
			}
			if sc.Hooks&4 == 0 {
				w.Bus.SetAfterPublishHook(nil)
			}
		}
		if sc.SetAPI {
			if sc.Hooks&1 != 0 {
				w.Bus.SetBeforePublishHook(func(et reflect.Type, ev any) { hook(0, nil, et, ev) })
			}
			if sc.Hooks&4 != 0 {
				w.Bus.SetAfterPublishHook(func(et reflect.Type, ev any) { hook(2, nil, et, ev) })
			}
		}
		w.OnFilter = func(ti, fn, id int, accepted bool) {
			simrt.Yield(siteFilter)
			filterAt[[2]int{regOfFn[fn], id}] = w.Rec.Add("filter", regOfFn[fn], id, "")
		}
		w.OnInvoke = func(ti, fn, uid int, ctx context.Context, id int) {
			if uid == 7000 { // the late Once handler
				onceRuns++
				w.Rec.Add("once", id, 0, "")
				return
			}
			if uid == 7001 { // the clearing handler
				w.Rec.Add("clear", id, sc.OnceClear, "")
				cleared++
				if sc.OnceClear == 2 {
					clearAll(w)
				} else {
					ops.Clear(w)
				}
				return
			}
			ri := regOfFn[fn]
			r := sc.Regs[ri]
			iv := &c08Inv{Reg: ri, Ev: id, ValueOK: true, ErrAgree: true, CtxAware: ctx != nil}
			iv.Enter = w.Rec.Add("enter", ri, id, "")
			invs = append(invs, iv)
			root := rootCtx[id]
			check := func() {
				if ctx == nil || root == nil {
					return
				}
				if !c08SameValues(root, ctx) {
					iv.ValueOK = false
				}
				if (ctx.Err() != nil) != (root.Err() != nil) {
					iv.ErrAgree = false
				}
			}
			check()
			k := calls[ri]
			calls[ri]++
			for i := 0; i < r.Yields; i++ {
				simrt.Yield(siteHandler)
				check()
			}
			if sc.Persist && pubKind(sc, id) != 3 {
				simrt.Sleep(10 * time.Millisecond) // longer than the persistence timeout
				check()
			}
			if pubKind(sc, id) == 3 {
				simrt.Sleep(10 * time.Millisecond) // the deadline (5 ms) expires while this handler runs
				if _, done := cancelAt[id]; !done && root != nil && root.Err() != nil {
					cancelAt[id] = w.Rec.Add("deadline-observed", id, 0, "")
				}
				check()
			}
			if r.CancelOn == k {
				if c := cancelFn[id]; c != nil {
					if _, done := cancelAt[id]; !done {
						cancelAt[id] = w.Rec.Add("cancel", ri, id, "")
					}
					c()
					simrt.Yield(siteHandler)
					check()
				}
			}
			iv.Exit = w.Rec.Add("exit", ri, id, "")
		}
		for i, r := range sc.Regs {
			if err := w.SubscribeUID(sc.Type, r.Fn, i, r.Opts); err != nil {
				out.HarnessErr = err.Error()
				return
			}
		}
		doPub := func(p C08Pub) {
			var ctx context.Context
			switch p.CtxKind {
			case 1, 2:
				base := c08Values(p.ID)
				c, cancel := context.WithCancel(base)
				if p.Cause {
					cc, cancelCause := context.WithCancelCause(base)
					c, cancel = cc, func() { cancelCause(errC08Cause) }
				}
				if p.Past && p.CtxKind == 2 {
					c, cancel = context.WithDeadline(base, time.Now().Add(-time.Second))
				}
				ctx, cancelFn[p.ID] = c, cancel
				if p.CtxKind == 2 {
					cancelAt[p.ID] = w.Rec.Add("pre-cancel", p.ID, 0, "")
					cancel()
				}
			case 3:
				c, cancel := context.WithTimeout(c08Values(p.ID), 5*time.Millisecond)
				ctx, cancelFn[p.ID] = c, cancel
				// the deadline may pass while nobody is looking (a delivery queued behind the other publisher's
				// event): note it from a callback task, so that the publish counts as cancelled from then on
				id := p.ID
				simrt.ContextAfterFunc(c, func() {
					if _, done := cancelAt[id]; !done && errors.Is(c.Err(), context.DeadlineExceeded) {
						cancelAt[id] = w.Rec.Add("deadline-passed", id, 0, "")
					}
				})
			}
			rootCtx[p.ID] = ctx
			pubCall[p.ID] = w.Rec.Add("pub-call", p.ID, p.CtxKind, "")
			pub := ops.Pub
			if sc.ViaAny {
				pub = ops.PubAny
			}
			pub(w, ctx, p.ID)
			pubRet[p.ID] = w.Rec.Add("pub-ret", p.ID, 0, "")
			w.Bus.Wait()
			if c := cancelFn[p.ID]; c != nil {
				c()
			}
		}
		var second *simrt.Task
		if len(sc.Pubs2) > 0 {
			second = simrt.GoNamed("publisher2", func() {
				for _, p := range sc.Pubs2 {
					doPub(p)
				}
			})
		}
		for i, p := range sc.Pubs {
			if sc.OnceClear != 0 && len(sc.Pubs2) == 0 && i == len(sc.Pubs)-1 {
				if err := w.SubscribeUID(sc.Type, numSites-2, 7000, SubOpts{Once: true}); err != nil {
					out.HarnessErr = err.Error()
					return
				}
				if err := w.SubscribeUID(sc.Type, numSites-3, 7001, SubOpts{}); err != nil {
					out.HarnessErr = err.Error()
					return
				}
			}
			doPub(p)
		}
		simrt.Join(second)
		w.Bus.Wait()
		finalCount = ops.Count(w)
	}
	rep, herr := core.Sim(t, &sc.Base, nil, body)
	out.Rep = rep
	if out.HarnessErr == "" {
		out.HarnessErr = herr
	}
	if rep == nil || out.HarnessErr != "" {
		return out
	}
	out.LogHash = w.Rec.Hash()
	out.SimTime = rep.FakeDuration
	out.Nontrivial = true
	if rep.BudgetExceeded {
		out.HarnessErr = "step budget exceeded"
		return out
	}
	for _, p := range rep.Panics {
		out.V("escaped-panic", "%s: %s", p.Task, p.Value)
	}
	if rep.Deadlock {
		out.V("deadlock", "%s", rep.DeadlockInfo)
		return out
	}
	for _, p := range sc.allPubs() {
		if _, ok := pubRet[p.ID]; !ok {
			out.V("publish-did-not-return", "publish of event %d did not return", p.ID)
			return out
		}
		c, cancelled := cancelAt[p.ID]
		if cancelled {
			out.Fault(fmt.Sprintf("context-cancelled-kind%d", p.CtxKind))
		}
		per := map[int][]*c08Inv{}
		var firstEnter, lastSyncExit int64
		for _, iv := range invs {
			if iv.Ev != p.ID {
				continue
			}
			per[iv.Reg] = append(per[iv.Reg], iv)
			if firstEnter == 0 || iv.Enter < firstEnter {
				firstEnter = iv.Enter
			}
			if !sc.Regs[iv.Reg].Opts.Async && iv.Exit > lastSyncExit {
				lastSyncExit = iv.Exit
			}
			if !iv.ValueOK {
				out.V("context-value-lost", "context-aware handler %d did not see the publish context's value for event %d", iv.Reg, p.ID)
			}
			if !iv.ErrAgree {
				out.V("context-cancellation-not-propagated", "context-aware handler %d (%+v): its context's Err() disagreed with the publish context's for event %d", iv.Reg, sc.Regs[iv.Reg].Opts, p.ID)
			}
			if iv.CtxAware != isCtxFn(sc.Regs[iv.Reg].Fn) {
				out.HarnessErr = "ctx-awareness mismatch"
			}
		}
		var prevSyncExit int64 = pubCall[p.ID]
		for ri, r := range sc.Regs {
			got := per[ri]
			accept := filterAccepts(r.Opts.Filter, p.ID)
			if len(got) > 1 {
				out.V("delivered-twice", "registration %d received event %d %d times", ri, p.ID, len(got))
			}
			if !accept && len(got) > 0 {
				out.V("filter-ignored", "registration %d received event %d which its filter rejects", ri, p.ID)
			}
			if p.CtxKind == 2 && len(got) > 0 {
				out.V("handler-ran-with-cancelled-context", "registration %d (%+v) ran for event %d although the context was cancelled before PublishContext was called", ri, r.Opts, p.ID)
			}
			if !cancelled && accept && len(got) != 1 {
				out.V("missed-delivery", "registration %d (%+v) received event %d %d times (context never cancelled), expected once", ri, r.Opts, p.ID, len(got))
			}
			if !r.Opts.Async {
				if cancelled && p.CtxKind != 2 && len(got) == 1 {
					// the bus checked the context for this handler after the previous synchronous
					// handler returned and after this handler's filter was evaluated
					bound := prevSyncExit
					if f, ok := filterAt[[2]int{ri, p.ID}]; ok && f > bound {
						bound = f
					}
					if c < bound {
						out.V("sync-handler-started-after-cancel", "synchronous registration %d was started (#%d) for event %d although the context had been cancelled at #%d, before the previous synchronous handler returned / this handler's filter was evaluated (#%d)", ri, got[0].Enter, p.ID, c, bound)
					}
				}
				if cancelled && p.CtxKind != 2 && accept && len(got) == 0 && c > prevSyncExit {
					// legal: skipped because of the cancellation
				}
				if len(got) == 1 {
					prevSyncExit = got[0].Exit
				}
			}
		}
		// hooks
		for kind := 0; kind < 4; kind++ {
			if sc.Hooks&(1<<kind) == 0 {
				continue
			}
			var hs []c08Hook
			for _, h := range hooks {
				if h.Kind == kind && h.Ev == p.ID {
					hs = append(hs, h)
				}
			}
			name := []string{"before-publish hook", "context before-publish hook", "after-publish hook", "context after-publish hook"}[kind]
			if len(hs) != 1 {
				out.V("hook-count", "%s ran %d times for the publish of event %d (ctx kind %d, %d handlers, cancelled=%v), expected exactly once", name, len(hs), p.ID, p.CtxKind, len(sc.Regs), cancelled)
				continue
			}
			h := hs[0]
			if !h.EvOK || !h.TypeOK {
				out.V("hook-args", "%s received a wrong event or event type for event %d", name, p.ID)
			}
			if !h.ValueOK {
				out.V("hook-context", "%s did not receive the publish context's values for event %d", name, p.ID)
			}
			if kind < 2 && firstEnter != 0 && h.Stamp > firstEnter {
				out.V("hook-order", "%s ran (#%d) after a handler of the same publish had started (#%d), event %d", name, h.Stamp, firstEnter, p.ID)
			}
			if kind >= 2 && h.Stamp < lastSyncExit {
				out.V("hook-order", "%s ran (#%d) before a synchronous handler of the same publish had returned (#%d), event %d", name, h.Stamp, lastSyncExit, p.ID)
			}
			if h.Stamp < pubCall[p.ID] || h.Stamp > pubRet[p.ID] {
				out.V("hook-order", "%s ran outside the publish call of event %d", name, p.ID)
			}
		}
	}
	if onceRuns > 1 {
		out.V("once-fired-twice", "the late Once handler ran %d times in one publish", onceRuns)
	}
	if cleared > 0 {
		out.Fault("clear-during-publish")
		if finalCount != 0 {
			out.V("count-after-clear", "HandlerCount=%d after a handler cleared the event type during the last publish", finalCount)
		}
	}
	for _, h := range hooks {
		known := false
		for _, p := range sc.allPubs() {
			known = known || p.ID == h.Ev
		}
		if !known || sc.Hooks&(1<<h.Kind) == 0 {
			out.V("hook-count", "hook kind %d ran for unknown event %d", h.Kind, h.Ev)
		}
	}
	out.Summary = fmt.Sprintf("%d regs, %d publishes, hooks mask %d, %d cancellations", len(sc.Regs), len(sc.Pubs), sc.Hooks, len(cancelAt))
	return out
}

func pubKind(sc *C08Scenario, id int) int {
	for _, p := range sc.allPubs() {
		if p.ID == id {
			return p.CtxKind
		}
	}
	return 0
}

var propC08 = &core.Property{ID: "C08", Gen: genC08, New: func() core.Scenario { return &C08Scenario{} }}

func TestC08(t *testing.T) { core.RunProperty(t, propC08) }
