// Package core is the glue shared by all property harnesses: running one
// scenario inside a synctest bubble under simrt, rapid-driven search with
// shrinking, replay files, known findings and evidence accounting.
package core

import (
	"sync"
	"runtime"
	"encoding/json"
	"flag"
	"fmt"
	"hash/fnv"
	"os"
	"path/filepath"
	"sort"
	"strconv"
	"strings"
	"testing"
	"testing/synctest"
	"time"

	"pgregory.net/rapid"
	"simshim/simrt"
)

// Violation is one breach of a property found in one run.
type Violation struct {
	Kind string `json:"kind"` // stable identifier of the rule that was broken
	Msg  string `json:"msg"`
	Sig  string `json:"sig"` // signature matched against known_findings.json (defaults to Kind)
}

func (v Violation) sig() string {
	if v.Sig != "" {
		return v.Sig
	}
	return v.Kind
}

// Outcome is what executing one scenario produced.
type Outcome struct {
	Violations []Violation
	Rep        *simrt.Report
	LogHash    uint64 // hash of the recorded history (determinism self-test, replay check)
	Nontrivial bool   // property-specific: the run exercised what the property quantifies over
	Faults     map[string]int
	Probes     map[string]int
	HarnessErr string
	SimTime    time.Duration
	Summary    string // short human-readable description for evidence samples
}

func (o *Outcome) V(kind, format string, a ...any) {
	o.Violations = append(o.Violations, Violation{Kind: kind, Msg: fmt.Sprintf(format, a...)})
}

func (o *Outcome) VS(kind, sig, format string, a ...any) {
	o.Violations = append(o.Violations, Violation{Kind: kind, Sig: sig, Msg: fmt.Sprintf(format, a...)})
}

func (o *Outcome) Fault(k string) {
	if o.Faults == nil {
		o.Faults = map[string]int{}
	}
	o.Faults[k]++
}

func (o *Outcome) Probe(k string) {
	if o.Probes == nil {
		o.Probes = map[string]int{}
	}
	o.Probes[k]++
}

// Base carries what every scenario has: the choice tape and the step budget.
type Base struct {
	Tape     []uint32 `json:"tape"`
	MaxSteps int      `json:"max_steps,omitempty"`
}

func (b *Base) BasePtr() *Base { return b }

// Scenario is one fully explicit test case: executing it twice gives the same run.
type Scenario interface {
	Execute(t *testing.T) *Outcome
	BasePtr() *Base
}

// Property binds a property id to its scenario generator.
type Property struct {
	ID  string
	Gen func(rt *rapid.T) Scenario
	New func() Scenario // empty value for decoding a replay file
	// Explicit, if set, enumerates explicitly constructed scenarios (a finite grid) that are executed
	// before the seeded search; worker w of n takes every n-th one. It returns a description.
	Explicit func(tier string, yield func(Scenario)) string
}

// ---------------------------------------------------------------------------

// Sim runs body as the main task of a fresh simulation in a fresh bubble.
func Sim(t *testing.T, b *Base, kills []simrt.Kill, body func()) (rep *simrt.Report, harnessErr string) {
	cfg := simrt.Config{Tape: ExpandTape(b.Tape), MaxSteps: b.MaxSteps, Kills: kills, KeepTrace: os.Getenv("VERIF_TRACE") != ""}
	defer func() {
		if r := recover(); r != nil {
			msg := fmt.Sprint(r)
			if rep != nil && rep.Deadlock && strings.Contains(msg, "blocked goroutines remain") {
				// the scheduler's verdict stands: the tasks it found blocked for good sit in real channel
				// operations (annotated, but not unwindable), which is what synctest complains about on exit
				return
			}
			harnessErr = "panic around bubble: " + msg
		}
	}()
	bubble := func(tt *testing.T) {
		synctest.Test(tt, func(*testing.T) {
			rep = simrt.Run(cfg, body)
		})
	}
	if os.Getenv("VERIF_RACE_RING") != "" {
		// Race companion: the harness's own bookkeeping is reported by the detector too (the driver filters
		// those reports out), and the testing package fails - and synctest.Test then aborts - a test during
		// which any report was printed. A throw-away subtest per case takes that failure instead.
		if !t.Run("case", bubble) {
			// something was reported during this case: keep its scenario for the driver
			ring := os.Getenv("VERIF_RACE_RING")
			if data, err := os.ReadFile(ring + ".cur"); err == nil {
				os.WriteFile(fmt.Sprintf("%s.keep.%d", ring, caseNo), data, 0o644)
			}
		}
	} else {
		bubble(t)
	}
	if rep == nil {
		return nil, "simulation produced no report"
	}
	if rep.HarnessError != "" {
		harnessErr = rep.HarnessError
	}
	return rep, harnessErr
}

// TailMark flags the last element of a tape as the seed of a generated tail: the explicit choices are
// followed by tailLen more, produced by a small PRNG from that seed, instead of by "keep running the
// same task" for the rest of the run. Long runs would otherwise be scheduled run-to-completion after
// their first few dozen decision points (rapid draws short slices far more often than long ones).
// The tail is a pure function of the tape, so a tape still decides the whole schedule.
const (
	TailMark = 1 << 16
	tailLen  = 4000
)

// ExpandTape returns the choices the scheduler will consume for a stored tape.
func ExpandTape(tape []uint32) []uint32 {
	if len(tape) == 0 || tape[len(tape)-1] < TailMark {
		return tape
	}
	seed := tape[len(tape)-1]
	out := make([]uint32, 0, len(tape)-1+tailLen)
	out = append(out, tape[:len(tape)-1]...)
	x := uint64(seed)*0x9E3779B97F4A7C15 + 1
	stay := []uint64{3, 6, 9}[seed%3] // out of 10 decision points, how many keep the current task
	for i := 0; i < tailLen; i++ {
		x ^= x << 13
		x ^= x >> 7
		x ^= x << 17
		if (x>>8)%10 < stay {
			out = append(out, 0)
		} else {
			out = append(out, uint32(1+(x>>20)%7))
		}
	}
	return out
}

// withTail appends a tail seed to a drawn tape in half of the runs.
func withTail(rt *rapid.T, tape []uint32) []uint32 {
	if rapid.IntRange(0, 1).Draw(rt, "tapeTail") == 1 {
		tape = append(tape, TailMark+rapid.Uint32Range(0, 1<<15).Draw(rt, "tailSeed"))
	}
	return tape
}

// ---------------------------------------------------------------------------
// Real-time watchdog. A task stuck inside an un-instrumented dependency on a lock the bubble does not consider
// "durably blocking" (a sync.Mutex or sync.Cond inside database/sql or the SQLite driver) stops everything:
// synctest.Wait never returns, the scheduler never gets to speak. A goroutine outside every bubble therefore
// watches the wall clock: if no case has started or finished for hangLimit, it looks at the goroutine dump. A
// simulator task inside a call into one of the bundled stores means that call does not return - a violation for
// the property that drove it, written out with the scenario as replay file; anything else is a harness error.

var (
	hangMu       sync.Mutex
	hangProp     string
	hangScenario []byte
	hangSeed     int64
	hangProgress time.Time
	hangOnce     sync.Once
)

const hangLimit = 45 * time.Second

// StoreCallInStacks looks for a simulator task that is inside a call into a bundled store.
func StoreCallInStacks(stacks string) (string, bool) {
	for _, g := range strings.Split(stacks, "\n\n") {
		if !strings.Contains(g, "simrt.(*Sim).taskMain") {
			continue
		}
		if strings.Contains(g, "simrt.(*Sim).park") || strings.Contains(g, "simrt.BlockOn") {
			continue // parked by the scheduler at a decision point (e.g. inside a replay callback): waiting for its turn, not for the store
		}
		for _, marker := range []string{"github.com/jilio/ebu/stores/sqlite.(*SQLiteStore).", "github.com/jilio/ebu/stores/durablestream.(*Store)."} {
			if i := strings.Index(g, marker); i >= 0 {
				line := g[i:]
				if j := strings.IndexByte(line, '\n'); j >= 0 {
					line = line[:j]
				}
				return line, true
			}
		}
	}
	return "", false
}

func noteProgress(prop string, seed int64, sc Scenario) {
	var data []byte
	if sc != nil {
		data, _ = json.Marshal(sc)
	}
	hangMu.Lock()
	hangProp, hangSeed, hangProgress = prop, seed, time.Now()
	if sc != nil {
		hangScenario = data
	}
	hangMu.Unlock()
	hangOnce.Do(func() {
		go func() {
			for {
				time.Sleep(5 * time.Second)
				hangMu.Lock()
				idle, prop, seed, scen := time.Since(hangProgress), hangProp, hangSeed, hangScenario
				hangMu.Unlock()
				if idle < hangLimit {
					continue
				}
				buf := make([]byte, 4<<20)
				stacks := string(buf[:runtime.Stack(buf, true)])
				call, inStore := StoreCallInStacks(stacks)
				if !inStore {
					fmt.Fprintf(os.Stderr, "HARNESS-ERROR property=%s: no progress for %v of real time and no task is inside a store call\nscenario: %s\n%s\n", prop, idle.Round(time.Second), scen, stacks)
					os.Exit(2)
				}
				dir := os.Getenv("VERIF_REPLAY_DIR")
				if dir == "" {
					dir = "."
				}
				os.MkdirAll(dir, 0o755)
				msg := fmt.Sprintf("a call into the store has not returned for %v of real time while every other goroutine waits for it: %s", idle.Round(time.Second), call)
				h := fnv.New32a()
				h.Write(scen)
				rf := ReplayFile{Property: prop, Seed: seed, Scenario: scen, Violations: []Violation{{Kind: "store-call-never-returned", Msg: msg}},
					Note: "found by the real-time watchdog (the blocked call holds a lock the simulator cannot see through); not minimised; re-run with ./check replay <this file>"}
				out, _ := json.MarshalIndent(rf, "", " ")
				path := filepath.Join(dir, fmt.Sprintf("%s-%d-%08x.json", prop, seed, h.Sum32()))
				if rp := os.Getenv("VERIF_REPLAY"); rp != "" {
					path = rp
				} else {
					os.WriteFile(path, out, 0o644)
				}
				fmt.Printf("VIOLATION property=%s replay=%s\n  kind=store-call-never-returned\n  %s\n", prop, path, msg)
				os.Exit(1)
			}
		}()
	})
}

// markCase serves the race companion (a -race build of the same workloads, see the driver): before a case
// runs, its scenario is left in a file (kept under the case's number if the case draws a report) and a marker goes to stderr, so that a report the race
// detector prints later on the same stream can be attributed to the case that was running.
var caseNo int

func markCase(sc Scenario) {
	ring := os.Getenv("VERIF_RACE_RING")
	if ring == "" {
		return
	}
	caseNo++
	data, _ := json.Marshal(sc)
	os.WriteFile(ring+".cur", data, 0o644)
	fmt.Fprintf(os.Stderr, "@@case %d\n", caseNo)
}

// DrawTape draws a choice tape. The scheduling policy is itself drawn per run
// (swarm style): how often a decision point keeps the current task running.
func DrawTape(rt *rapid.T, maxLen int) []uint32 {
	mode := rapid.IntRange(0, 3).Draw(rt, "schedMode")
	switch mode {
	case 0: // uniform
		return withTail(rt, rapid.SliceOfN(rapid.Uint32Range(0, 7), 0, maxLen).Draw(rt, "tape"))
	case 1, 2: // sticky: mostly keep running the current task
		zeroOutOf10 := 5
		if mode == 2 {
			zeroOutOf10 = 9
		}
		g := rapid.Custom(func(t *rapid.T) uint32 {
			if rapid.IntRange(0, 9).Draw(t, "z") < zeroOutOf10 {
				return 0
			}
			return rapid.Uint32Range(1, 7).Draw(t, "v")
		})
		return withTail(rt, rapid.SliceOfN(g, 0, maxLen).Draw(rt, "tape"))
	default: // PCT-like: run to completion except at d<=3 change points
		n := rapid.IntRange(0, maxLen).Draw(rt, "tapeLen")
		tape := make([]uint32, n)
		d := rapid.IntRange(0, 3).Draw(rt, "changePoints")
		for i := 0; i < d && n > 0; i++ {
			p := rapid.IntRange(0, n-1).Draw(rt, "cp")
			tape[p] = rapid.Uint32Range(1, 7).Draw(rt, "cpv")
		}
		return tape
	}
}

// ---------------------------------------------------------------------------
// Recorder: the history of one run, stamped with the simulator's sequence numbers.

type Ev struct {
	Stamp int64  `json:"s"`
	Task  int    `json:"t"`
	Kind  string `json:"k"`
	A     int    `json:"a,omitempty"`
	B     int    `json:"b,omitempty"`
	X     string `json:"x,omitempty"`
}

type Recorder struct {
	Evs []Ev
}

// Add appends an event and returns its stamp. Calls made while the simulation is
// being torn down (deferred calls of aborted tasks) are ignored.
func (r *Recorder) Add(kind string, a, b int, x string) int64 {
	if simrt.Dying() {
		return 0
	}
	st := simrt.Stamp()
	id := -1
	if t := simrt.Current(); t != nil {
		id = t.ID
	}
	r.Evs = append(r.Evs, Ev{Stamp: st, Task: id, Kind: kind, A: a, B: b, X: x})
	return st
}

func (r *Recorder) Hash() uint64 {
	h := fnv.New64a()
	for _, e := range r.Evs {
		fmt.Fprintf(h, "%d|%d|%s|%d|%d|%s\n", e.Stamp, e.Task, e.Kind, e.A, e.B, e.X)
	}
	return h.Sum64()
}

func (r *Recorder) Dump(max int) []string {
	var out []string
	for i, e := range r.Evs {
		if i >= max {
			out = append(out, fmt.Sprintf("... %d more", len(r.Evs)-max))
			break
		}
		out = append(out, fmt.Sprintf("#%d T%d %s a=%d b=%d %s", e.Stamp, e.Task, e.Kind, e.A, e.B, e.X))
	}
	return out
}

// ---------------------------------------------------------------------------
// known findings

type KnownFinding struct {
	Property string `json:"property"`
	Sig      string `json:"sig"`
	What     string `json:"what"`
}

type knownFile struct {
	Known []KnownFinding    `json:"known"`
	Fixed []json.RawMessage `json:"fixed"`
}

func loadKnown(prop string) map[string]string {
	out := map[string]string{}
	p := os.Getenv("VERIF_KNOWN")
	if p == "" {
		return out
	}
	data, err := os.ReadFile(p)
	if err != nil {
		return out
	}
	var kf knownFile
	if err := json.Unmarshal(data, &kf); err != nil {
		fmt.Fprintf(os.Stderr, "HARNESS-ERROR: cannot parse %s: %v\n", p, err)
		os.Exit(2)
	}
	for _, k := range kf.Known {
		if k.Property == prop {
			out[k.Sig] = k.What
		}
	}
	return out
}

// ---------------------------------------------------------------------------
// statistics / evidence

type Stats struct {
	Property    string            `json:"property"`
	Seed        int64             `json:"seed"`
	Evaluations int               `json:"evaluations"`
	Nontrivial  int               `json:"nontrivial"`
	Sigs        []uint64          `json:"sigs"` // distinct signatures of non-trivial runs
	Steps       int64             `json:"steps"`
	Choices     int64             `json:"choices"`
	Preemptions int64             `json:"preemptions"`
	TasksMax    int               `json:"tasks_max"`
	SimTimeNs   int64             `json:"sim_time_ns"`
	Faults      map[string]int    `json:"faults_fired"`
	Probes      map[string]int    `json:"probes"`
	KnownHits   map[string]int    `json:"known_hits"`
	KnownWhat   map[string]string `json:"known_what"`
	Samples     []json.RawMessage `json:"samples"`
	Violations  int               `json:"violations"`
	Deadlocks   int               `json:"deadlocks"`
	Budget      int               `json:"budget_exceeded"`
	WallS       float64           `json:"wall_s"`
	StoppedByBudget bool          `json:"stopped_by_budget"`
	Exhaustive      int           `json:"exhaustive_cases"`
	ExhaustiveWhat  string        `json:"exhaustive_what"`
	LogHashes   []string          `json:"log_hashes,omitempty"`
}

type runner struct {
	prop    *Property
	known   map[string]string
	stats   Stats
	sigs    map[uint64]bool
	last    *failure
	logHash bool
	chunkSeed int64
}

type failure struct {
	Scenario   Scenario
	Violations []Violation
	LogHash    uint64
	TraceHash  uint64
}

// ReplayFile is the on-disk form of a minimised failing case.
type ReplayFile struct {
	Property   string          `json:"property"`
	Seed       int64           `json:"seed"`
	RapidSeed  int64           `json:"rapid_seed"`
	Scenario   json.RawMessage `json:"scenario"`
	Violations []Violation     `json:"violations"`
	LogHash    string          `json:"log_hash"`
	TraceHash  string          `json:"trace_hash"`
	Note       string          `json:"note"`
}

func envInt(name string, def int64) int64 {
	if v := os.Getenv(name); v != "" {
		n, err := strconv.ParseInt(v, 10, 64)
		if err == nil {
			return n
		}
	}
	return def
}

func shapeHash(sc Scenario) uint64 {
	b := sc.BasePtr()
	saved := b.Tape
	b.Tape = nil
	data, _ := json.Marshal(sc)
	b.Tape = saved
	h := fnv.New64a()
	h.Write(data)
	return h.Sum64()
}

func (r *runner) account(sc Scenario, out *Outcome) (unknown []Violation) {
	s := &r.stats
	s.Evaluations++
	if out.Rep != nil {
		s.Steps += int64(out.Rep.Steps)
		s.Choices += int64(out.Rep.Choices)
		s.Preemptions += int64(out.Rep.Preemptions)
		if out.Rep.Tasks > s.TasksMax {
			s.TasksMax = out.Rep.Tasks
		}
		s.SimTimeNs += int64(out.Rep.FakeDuration)
		if out.Rep.Deadlock {
			s.Deadlocks++
		}
		if out.Rep.BudgetExceeded {
			s.Budget++
		}
	}
	for k, v := range out.Faults {
		s.Faults[k] += v
	}
	for k, v := range out.Probes {
		s.Probes[k] += v
	}
	if out.Nontrivial {
		s.Nontrivial++
		sig := shapeHash(sc)
		if out.Rep != nil {
			sig = sig*1099511628211 ^ out.Rep.TraceHash
		}
		sig = sig*1099511628211 ^ out.LogHash
		if !r.sigs[sig] {
			r.sigs[sig] = true
		}
	}
	if len(s.Samples) < 3 && out.Nontrivial {
		data, _ := json.Marshal(map[string]any{"scenario": sc, "summary": out.Summary,
			"steps": repSteps(out.Rep), "violations": out.Violations})
		if len(data) > 6000 {
			data, _ = json.Marshal(map[string]any{"summary": out.Summary, "steps": repSteps(out.Rep),
				"scenario_json_truncated": string(data[:3000])})
		}
		s.Samples = append(s.Samples, data)
	}
	if r.logHash {
		th := uint64(0)
		if out.Rep != nil {
			th = out.Rep.TraceHash
		}
		s.LogHashes = append(s.LogHashes, fmt.Sprintf("%016x:%016x:%016x:%d", shapeHash(sc), out.LogHash, th, len(out.Violations)))
	}
	for _, v := range out.Violations {
		if what, ok := r.known[v.sig()]; ok {
			s.KnownHits[v.sig()]++
			s.KnownWhat[v.sig()] = what
			continue
		}
		unknown = append(unknown, v)
	}
	return unknown
}

func repSteps(r *simrt.Report) int {
	if r == nil {
		return 0
	}
	return r.Steps
}

func (r *runner) writeStats(start time.Time) {
	s := &r.stats
	s.Exhaustive = pendingExhaustive[s.Property]
	s.ExhaustiveWhat = pendingExhaustiveText[s.Property]
	s.WallS = time.Since(start).Seconds()
	s.Sigs = s.Sigs[:0]
	for k := range r.sigs {
		s.Sigs = append(s.Sigs, k)
	}
	sort.Slice(s.Sigs, func(i, j int) bool { return s.Sigs[i] < s.Sigs[j] })
	if p := os.Getenv("VERIF_OUT"); p != "" {
		data, _ := json.Marshal(s)
		if err := os.WriteFile(p, data, 0o644); err != nil {
			fmt.Fprintf(os.Stderr, "HARNESS-ERROR: write stats: %v\n", err)
			os.Exit(2)
		}
	}
}

func harnessFail(prop string, sc Scenario, msg string) {
	data, _ := json.Marshal(sc)
	if len(data) > 4000 {
		data = data[:4000]
	}
	fmt.Fprintf(os.Stderr, "HARNESS-ERROR property=%s: %s\nscenario: %s\n", prop, msg, data)
	os.Exit(2)
}

var pendingExhaustive = map[string]int{}
var pendingExhaustiveText = map[string]string{}

// NoteExhaustive records that a finite sub-space was enumerated completely before the seeded search.
func NoteExhaustive(prop, what string, count int) {
	pendingExhaustive[prop] += count
	pendingExhaustiveText[prop] = what
}

// EmitViolation writes the replay file for an explicitly constructed failing scenario,
// prints the VIOLATION line and terminates the worker.
func EmitViolation(p *Property, sc Scenario, out *Outcome) {
	r := &runner{prop: p}
	f := &failure{Scenario: sc, Violations: out.Violations, LogHash: out.LogHash}
	if out.Rep != nil {
		f.TraceHash = out.Rep.TraceHash
	}
	r.last = f
	path := r.writeReplay(envInt("VERIF_SEED", 1))
	fmt.Printf("VIOLATION property=%s replay=%s\n  kind=%s\n  %s\n", p.ID, path, out.Violations[0].Kind, out.Violations[0].Msg)
	os.Exit(1)
}

// RunProperty is the body of every TestCxx.
func RunProperty(t *testing.T, p *Property) {
	start := time.Now()
	seed := envInt("VERIF_SEED", 1)
	r := &runner{prop: p, known: loadKnown(p.ID), sigs: map[uint64]bool{}, logHash: os.Getenv("VERIF_LOGHASH") != ""}
	r.stats = Stats{Property: p.ID, Seed: seed, Faults: map[string]int{}, Probes: map[string]int{},
		KnownHits: map[string]int{}, KnownWhat: map[string]string{}}

	if rf := os.Getenv("VERIF_REPLAY"); rf != "" {
		r.replay(t, rf)
		return
	}

	deadline := time.Time{}
	if ms := envInt("VERIF_BUDGET_MS", 0); ms > 0 {
		deadline = start.Add(time.Duration(ms) * time.Millisecond)
	}
	total := int(envInt("VERIF_CHECKS", 200))
	chunk := int(envInt("VERIF_CHUNK", 100))
	if chunk > total {
		chunk = total
	}
	failed := false
	prop := func(rt *rapid.T) {
		sc := p.Gen(rt)
		markCase(sc)
		noteProgress(p.ID, seed, sc)
		out := sc.Execute(t)
		noteProgress(p.ID, seed, nil)
		if out.HarnessErr != "" {
			harnessFail(p.ID, sc, out.HarnessErr)
		}
		unknown := r.account(sc, out)
		if len(unknown) > 0 {
			f := &failure{Scenario: sc, Violations: unknown, LogHash: out.LogHash}
			if out.Rep != nil {
				f.TraceHash = out.Rep.TraceHash
			}
			r.last = f
			rt.Fatalf("violation: %s: %s", unknown[0].Kind, unknown[0].Msg)
		}
	}
	if p.Explicit != nil {
		w, n := int(envInt("VERIF_WORKER", 0)), int(envInt("VERIF_WORKERS", 1))
		i, count := 0, 0
		what := p.Explicit(os.Getenv("VERIF_TIER"), func(sc Scenario) {
			i++
			if (i-1)%n != w || r.last != nil {
				return
			}
			out := sc.Execute(t)
			if out.HarnessErr != "" {
				harnessFail(p.ID, sc, out.HarnessErr)
			}
			count++
			if unknown := r.account(sc, out); len(unknown) > 0 {
				f := &failure{Scenario: sc, Violations: unknown, LogHash: out.LogHash}
				if out.Rep != nil {
					f.TraceHash = out.Rep.TraceHash
				}
				r.last = f
			}
		})
		NoteExhaustive(p.ID, what, count)
		r.stats.Evaluations -= count // reported separately as exhaustively enumerated cases
		if r.last != nil { // a case of the grid violates the property: report it, skip the seeded search
			r.stats.Violations = 1
			path := r.writeReplay(seed)
			fmt.Printf("VIOLATION property=%s replay=%s\n  kind=%s\n  %s\n", p.ID, path, r.last.Violations[0].Kind, r.last.Violations[0].Msg)
			r.writeStats(start)
			t.Fail()
			return
		}
	}
	// The search runs in chunks, each an independent rapid.Check with its own derived
	// seed, so that a wall-clock cap can stop between chunks without touching rapid.
	for c := 0; r.stats.Evaluations < total && !failed; c++ {
		if !deadline.IsZero() && time.Now().After(deadline) {
			r.stats.StoppedByBudget = true
			break
		}
		chunkSeed := seed*1000 + int64(c) + 1
		flag.Set("rapid.seed", strconv.FormatInt(chunkSeed, 10))
		n := chunk
		if rem := total - r.stats.Evaluations; rem < n {
			n = rem
		}
		flag.Set("rapid.checks", strconv.Itoa(n))
		r.chunkSeed = chunkSeed
		before := r.stats.Evaluations
		rapid.Check(quietTB{t, &failed}, prop)
		if r.stats.Evaluations == before {
			break
		}
	}
	if failed && r.last == nil {
		// rapid itself failed (e.g. generator trouble) without a property violation
		fmt.Fprintf(os.Stderr, "HARNESS-ERROR property=%s: rapid reported a failure that is not a violation:\n%s\n", p.ID, lastRapidMessage)
		r.writeStats(start)
		os.Exit(2)
	}
	if r.last != nil {
		r.stats.Violations = 1
		path := r.writeReplay(seed)
		fmt.Printf("VIOLATION property=%s replay=%s\n", p.ID, path)
		fmt.Printf("  kind=%s\n  %s\n", r.last.Violations[0].Kind, r.last.Violations[0].Msg)
		r.writeStats(start)
		t.Fail()
		return
	}
	r.writeStats(start)
}

func (r *runner) writeReplay(seed int64) string {
	dir := os.Getenv("VERIF_REPLAY_DIR")
	if dir == "" {
		dir = "."
	}
	os.MkdirAll(dir, 0o755)
	data, _ := json.Marshal(r.last.Scenario)
	h := fnv.New32a()
	h.Write(data)
	rf := ReplayFile{Property: r.prop.ID, Seed: seed, RapidSeed: r.chunkSeed, Scenario: data, Violations: r.last.Violations,
		LogHash: fmt.Sprintf("%016x", r.last.LogHash), TraceHash: fmt.Sprintf("%016x", r.last.TraceHash),
		Note: "minimised by rapid; re-run with ./check replay <this file>"}
	out, _ := json.MarshalIndent(rf, "", " ")
	path := filepath.Join(dir, fmt.Sprintf("%s-%d-%08x.json", r.prop.ID, seed, h.Sum32()))
	if err := os.WriteFile(path, out, 0o644); err != nil {
		fmt.Fprintf(os.Stderr, "HARNESS-ERROR: write replay: %v\n", err)
		os.Exit(2)
	}
	return path
}

func (r *runner) replay(t *testing.T, path string) {
	data, err := os.ReadFile(path)
	if err != nil {
		fmt.Fprintf(os.Stderr, "HARNESS-ERROR: %v\n", err)
		os.Exit(2)
	}
	var rf ReplayFile
	if err := json.Unmarshal(data, &rf); err != nil {
		fmt.Fprintf(os.Stderr, "HARNESS-ERROR: %v\n", err)
		os.Exit(2)
	}
	sc := r.prop.New()
	if err := json.Unmarshal(rf.Scenario, sc); err != nil {
		fmt.Fprintf(os.Stderr, "HARNESS-ERROR: decode scenario: %v\n", err)
		os.Exit(2)
	}
	markCase(sc)
	noteProgress(r.prop.ID, rf.Seed, sc)
	out := sc.Execute(t)
	if out.HarnessErr != "" {
		harnessFail(r.prop.ID, sc, out.HarnessErr)
	}
	want := map[string]bool{}
	for _, v := range rf.Violations {
		want[v.Kind] = true
	}
	reproduced := false
	for _, v := range out.Violations {
		if want[v.Kind] {
			reproduced = true
		}
	}
	gotHash := fmt.Sprintf("%016x", out.LogHash)
	switch {
	case reproduced && gotHash == rf.LogHash:
		fmt.Printf("VIOLATION property=%s replay=%s\n  reproduced exactly (history hash %s)\n", rf.Property, path, gotHash)
		for _, v := range out.Violations {
			fmt.Printf("  kind=%s %s\n", v.Kind, v.Msg)
			if what, ok := r.known[v.Sig]; ok && v.Sig != "" {
				fmt.Printf("  (listed in known_findings.json under signature %s: %s)\n", v.Sig, what)
			} else if v.Sig != "" {
				fmt.Printf("  (signature %s)\n", v.Sig)
			}
		}
		t.Fail()
	case reproduced:
		fmt.Printf("VIOLATION property=%s replay=%s\n  same violation kind, but the history differs from the recorded one (%s vs %s): the tree changed since the replay was written\n", rf.Property, path, gotHash, rf.LogHash)
		t.Fail()
	default:
		fmt.Printf("REPLAY-OK property=%s: the recorded violation does not occur on this tree (history hash %s, recorded %s)\n", rf.Property, gotHash, rf.LogHash)
		for _, v := range out.Violations {
			fmt.Printf("  note: this scenario shows a violation of another kind on this tree: kind=%s %s\n", v.Kind, v.Msg)
		}
	}
}

// quietTB lets rapid report through the test's log without aborting the process,
// and remembers that it failed.
type quietTB struct {
	*testing.T
	failed *bool
}

func (q quietTB) Logf(format string, args ...any) {
	if strings.Contains(format, "OK, passed") {
		return
	}
	q.T.Logf(format, args...)
}
var lastRapidMessage string

func (q quietTB) Errorf(format string, args ...any) {
	*q.failed = true
	lastRapidMessage = fmt.Sprintf(format, args...)
	q.T.Logf("[rapid] "+format, args...)
}
func (q quietTB) Fatalf(format string, args ...any) {
	*q.failed = true
	lastRapidMessage = fmt.Sprintf(format, args...)
	q.T.Logf("[rapid] "+format, args...)
}
func (q quietTB) Error(args ...any)  { *q.failed = true; q.T.Log(args...) }
func (q quietTB) Fatal(args ...any)  { *q.failed = true; q.T.Log(args...) }
func (q quietTB) Fail()              { *q.failed = true }
func (q quietTB) FailNow()           { *q.failed = true }
func (q quietTB) Failed() bool       { return *q.failed }

// Join helps format small int lists.
func Join(xs []int) string {
	ss := make([]string, len(xs))
	for i, x := range xs {
		ss[i] = strconv.Itoa(x)
	}
	return strings.Join(ss, ",")
}
