// Command instrument rewrites the non-test Go files of a scratch copy of
// jilio/ebu so that every source of scheduling nondeterminism goes through the
// simulator (simshim/simrt, simsync, simatomic). The rewrite is mechanical:
//
//	import "sync"          -> import sync "simshim/simsync"
//	import "sync/atomic"   -> import atomic "simshim/simatomic"
//	go f(a, b)             -> { _a0, _a1 := a, b; simrt.Go(func() { f(_a0, _a1) }) }
//	blocking select (receive-only, no bound values)
//	                       -> switch simrt.Select(ch0, ch1) { case 0: ...; case 1: ... }
//	other blocking select  -> _tok := simrt.BeforeBlock(); select { case ...: simrt.AfterBlock(_tok); ... }
//	<-ch / ch <- v / v := <-ch as statements
//	                       -> _tok := simrt.BeforeBlock(); stmt; simrt.AfterBlock(_tok)
//	for range ch           -> annotated likewise (receive at loop head)
//	time.Sleep(d)          -> simrt.Sleep(d)
//	time.AfterFunc(d, f)   -> simrt.TimeAfterFunc(d, f)      (the callback runs as a task)
//	context.AfterFunc(c,f) -> simrt.ContextAfterFunc(c, f)   (likewise)
//
// Usage: instrument <dir>...   (rewrites in place, prints one line per site)
package main

import (
	"bytes"
	"fmt"
	"go/ast"
	"go/format"
	"go/parser"
	"go/token"
	"os"
	"path/filepath"
	"strconv"
	"strings"
)

var (
	sites    int
	warnings int
)

func main() {
	for _, dir := range os.Args[1:] {
		err := filepath.Walk(dir, func(p string, info os.FileInfo, err error) error {
			if err != nil {
				return err
			}
			if info.IsDir() {
				n := info.Name()
				if p != dir && (n == "examples" || n == "testdata" || strings.HasPrefix(n, ".") || n == "docs") {
					return filepath.SkipDir
				}
				return nil
			}
			if !strings.HasSuffix(p, ".go") || strings.HasSuffix(p, "_test.go") {
				return nil
			}
			return rewriteFile(p)
		})
		if err != nil {
			fmt.Fprintln(os.Stderr, "instrument:", err)
			os.Exit(2)
		}
	}
	fmt.Printf("instrument: %d sites rewritten, %d warnings\n", sites, warnings)
}

type rewriter struct {
	fset      *token.FileSet
	file      *ast.File
	path      string
	needSimrt bool
	ctxName  string
	timeName  string // local name of package "time" ("" if not imported)
	tmp       int
}

func (r *rewriter) note(pos token.Pos, kind string) {
	sites++
	fmt.Printf("site %s:%d %s\n", r.path, r.fset.Position(pos).Line, kind)
}

func (r *rewriter) warn(pos token.Pos, msg string) {
	warnings++
	fmt.Printf("WARNING %s:%d %s\n", r.path, r.fset.Position(pos).Line, msg)
}

func rewriteFile(path string) error {
	fset := token.NewFileSet()
	f, err := parser.ParseFile(fset, path, nil, parser.ParseComments)
	if err != nil {
		return err
	}
	r := &rewriter{fset: fset, file: f, path: path}
	changed := false
	for _, imp := range f.Imports {
		p, _ := strconv.Unquote(imp.Path.Value)
		switch p {
		case "sync":
			name := "sync"
			if imp.Name != nil {
				name = imp.Name.Name
			}
			imp.Name = ast.NewIdent(name)
			imp.Path.Value = strconv.Quote("simshim/simsync")
			r.note(imp.Pos(), "import sync")
			changed = true
		case "sync/atomic":
			name := "atomic"
			if imp.Name != nil {
				name = imp.Name.Name
			}
			imp.Name = ast.NewIdent(name)
			imp.Path.Value = strconv.Quote("simshim/simatomic")
			r.note(imp.Pos(), "import sync/atomic")
			changed = true
		case "time":
			r.timeName = "time"
			if imp.Name != nil {
				r.timeName = imp.Name.Name
			}
		case "context":
			r.ctxName = "context"
			if imp.Name != nil {
				r.ctxName = imp.Name.Name
			}
		}
	}
	// statement-level rewrites
	ast.Inspect(f, func(n ast.Node) bool {
		switch b := n.(type) {
		case *ast.BlockStmt:
			b.List = r.rewriteList(b.List)
		case *ast.CaseClause:
			b.Body = r.rewriteList(b.Body)
		case *ast.CommClause:
			b.Body = r.rewriteList(b.Body)
		case *ast.CallExpr:
			if sel, ok := b.Fun.(*ast.SelectorExpr); ok {
				if id, ok := sel.X.(*ast.Ident); ok && id.Obj == nil {
					switch {
					case r.timeName != "" && id.Name == r.timeName && sel.Sel.Name == "Sleep":
						id.Name = "simrt"
						r.needSimrt = true
						r.note(b.Pos(), "time.Sleep")
					case r.timeName != "" && id.Name == r.timeName && sel.Sel.Name == "AfterFunc":
						id.Name, sel.Sel.Name = "simrt", "TimeAfterFunc"
						r.needSimrt = true
						r.note(b.Pos(), "time.AfterFunc")
					case r.ctxName != "" && id.Name == r.ctxName && sel.Sel.Name == "AfterFunc":
						id.Name, sel.Sel.Name = "simrt", "ContextAfterFunc"
						r.needSimrt = true
						r.note(b.Pos(), "context.AfterFunc")
					}
				}
			}
		}
		return true
	})
	if r.needSimrt {
		changed = true
		addImport(f, "simshim/simrt")
	}
	if !changed {
		return nil
	}
	// the "time" import may have become unused
	if r.timeName != "" && !usesPkg(f, r.timeName) {
		dropImport(f, "time")
	}
	if r.ctxName != "" && !usesPkg(f, r.ctxName) {
		dropImport(f, "context")
	}
	// Free-floating comments end up in odd places after the rewrite; keep only build
	// constraints (before the package clause) and compiler directives.
	var keep []*ast.CommentGroup
	for _, cg := range f.Comments {
		directive := false
		for _, c := range cg.List {
			if strings.HasPrefix(c.Text, "//go:") {
				directive = true
			}
		}
		if cg.End() < f.Package || directive {
			keep = append(keep, cg)
		}
	}
	f.Comments = keep
	var buf bytes.Buffer
	if err := format.Node(&buf, fset, f); err != nil {
		return fmt.Errorf("%s: %v", path, err)
	}
	return os.WriteFile(path, buf.Bytes(), 0o644)
}

func usesPkg(f *ast.File, name string) bool {
	used := false
	ast.Inspect(f, func(n ast.Node) bool {
		if sel, ok := n.(*ast.SelectorExpr); ok {
			if id, ok := sel.X.(*ast.Ident); ok && id.Name == name && id.Obj == nil {
				used = true
			}
		}
		return !used
	})
	return used
}

func addImport(f *ast.File, path string) {
	for _, imp := range f.Imports {
		if imp.Path.Value == strconv.Quote(path) {
			return
		}
	}
	spec := &ast.ImportSpec{Path: &ast.BasicLit{Kind: token.STRING, Value: strconv.Quote(path)}}
	for _, d := range f.Decls {
		if gd, ok := d.(*ast.GenDecl); ok && gd.Tok == token.IMPORT {
			gd.Specs = append(gd.Specs, spec)
			if !gd.Lparen.IsValid() {
				gd.Lparen = gd.Pos()
				gd.Rparen = gd.End()
			}
			f.Imports = append(f.Imports, spec)
			return
		}
	}
	gd := &ast.GenDecl{Tok: token.IMPORT, Specs: []ast.Spec{spec}}
	f.Decls = append([]ast.Decl{gd}, f.Decls...)
	f.Imports = append(f.Imports, spec)
}

func dropImport(f *ast.File, path string) {
	q := strconv.Quote(path)
	for _, d := range f.Decls {
		gd, ok := d.(*ast.GenDecl)
		if !ok || gd.Tok != token.IMPORT {
			continue
		}
		for i, s := range gd.Specs {
			if s.(*ast.ImportSpec).Path.Value == q {
				gd.Specs = append(gd.Specs[:i], gd.Specs[i+1:]...)
				break
			}
		}
	}
	for i, imp := range f.Imports {
		if imp.Path.Value == q {
			f.Imports = append(f.Imports[:i], f.Imports[i+1:]...)
			break
		}
	}
}

func ident(n string) *ast.Ident { return ast.NewIdent(n) }

func simrtCall(fn string, args ...ast.Expr) *ast.CallExpr {
	return &ast.CallExpr{Fun: &ast.SelectorExpr{X: ident("simrt"), Sel: ident(fn)}, Args: args}
}

func (r *rewriter) fresh(prefix string) string {
	r.tmp++
	return fmt.Sprintf("_sim%s%d", prefix, r.tmp)
}

func (r *rewriter) rewriteList(list []ast.Stmt) []ast.Stmt {
	var out []ast.Stmt
	for _, st := range list {
		out = append(out, r.rewriteStmt(st)...)
	}
	return out
}

func (r *rewriter) rewriteStmt(st ast.Stmt) []ast.Stmt {
	switch s := st.(type) {
	case *ast.LabeledStmt:
		inner := r.rewriteStmt(s.Stmt)
		if len(inner) == 1 {
			s.Stmt = inner[0]
			return []ast.Stmt{s}
		}
		// keep the label on the construct that may be the target of break/continue
		s.Stmt = inner[len(inner)-1]
		if _, isSel := s.Stmt.(*ast.ExprStmt); isSel {
			s.Stmt = &ast.BlockStmt{List: inner}
			return []ast.Stmt{s}
		}
		return append(inner[:len(inner)-1:len(inner)-1], s)
	case *ast.GoStmt:
		return []ast.Stmt{r.rewriteGo(s)}
	case *ast.SelectStmt:
		return r.rewriteSelect(s)
	case *ast.ExprStmt:
		if hasRecv(s.X) {
			return r.wrapBlocking(st, "recv")
		}
	case *ast.SendStmt:
		return r.wrapBlocking(st, "send")
	case *ast.AssignStmt:
		for _, e := range s.Rhs {
			if hasRecv(e) {
				return r.wrapBlocking(st, "recv-assign")
			}
		}
	case *ast.DeclStmt:
		if exprsHaveRecv(st) {
			return r.wrapBlocking(st, "recv-decl")
		}
	case *ast.ReturnStmt:
		for _, e := range s.Results {
			if hasRecv(e) {
				r.warn(st.Pos(), "channel receive inside return statement is not annotated")
			}
		}
	case *ast.IfStmt:
		if s.Cond != nil && hasRecv(s.Cond) {
			r.warn(st.Pos(), "channel receive inside if condition is not annotated")
		}
	case *ast.RangeStmt:
		// Without type information a range over a channel cannot be told apart from
		// other ranges; ebu has none. A range over a channel would block un-annotated,
		// which the scheduler reports as a harness error (exit 2), never as a verdict.
	}
	return []ast.Stmt{st}
}

func exprsHaveRecv(n ast.Node) bool {
	found := false
	ast.Inspect(n, func(m ast.Node) bool {
		if _, ok := m.(*ast.FuncLit); ok {
			return false
		}
		if u, ok := m.(*ast.UnaryExpr); ok && u.Op == token.ARROW {
			found = true
		}
		return !found
	})
	return found
}

func hasRecv(e ast.Expr) bool { return exprsHaveRecv(e) }

func (r *rewriter) wrapBlocking(st ast.Stmt, kind string) []ast.Stmt {
	r.needSimrt = true
	r.note(st.Pos(), "blocking "+kind)
	// Operands that contain calls are evaluated first, into temporaries: a channel obtained from a method that
	// takes a lock (`<-t.Idle()`) must not be computed after the task has been marked as blocked.
	pre := r.hoistOperands(st)
	tok := r.fresh("tok")
	return append(pre,
		&ast.AssignStmt{Lhs: []ast.Expr{ident(tok)}, Tok: token.DEFINE, Rhs: []ast.Expr{simrtCall("BeforeBlock")}},
		st,
		&ast.ExprStmt{X: simrtCall("AfterBlock", ident(tok))},
	)
}

// hoistOperands replaces, inside one communication statement, channel operands (and sent values) that contain
// calls by temporaries, and returns the assignments that compute them.
func (r *rewriter) hoistOperands(st ast.Node) []ast.Stmt {
	var pre []ast.Stmt
	hoist := func(e ast.Expr) ast.Expr {
		if !containsCall(e) {
			return e
		}
		name := r.fresh("op")
		pre = append(pre, &ast.AssignStmt{Lhs: []ast.Expr{ident(name)}, Tok: token.DEFINE, Rhs: []ast.Expr{e}})
		return ident(name)
	}
	ast.Inspect(st, func(m ast.Node) bool {
		switch n := m.(type) {
		case *ast.FuncLit:
			return false
		case *ast.UnaryExpr:
			if n.Op == token.ARROW {
				n.X = hoist(n.X)
			}
		case *ast.SendStmt:
			n.Chan = hoist(n.Chan)
			n.Value = hoist(n.Value)
		}
		return true
	})
	return pre
}

func containsCall(e ast.Expr) bool {
	found := false
	ast.Inspect(e, func(m ast.Node) bool {
		switch m.(type) {
		case *ast.FuncLit:
			return false
		case *ast.CallExpr:
			found = true
		}
		return !found
	})
	return found
}

func (r *rewriter) rewriteGo(g *ast.GoStmt) ast.Stmt {
	r.needSimrt = true
	r.note(g.Pos(), "go")
	call := g.Call
	var pre []ast.Stmt
	// bind the arguments now (they are evaluated at the go statement)
	newArgs := make([]ast.Expr, len(call.Args))
	for i, a := range call.Args {
		name := r.fresh("a")
		pre = append(pre, &ast.AssignStmt{Lhs: []ast.Expr{ident(name)}, Tok: token.DEFINE, Rhs: []ast.Expr{a}})
		newArgs[i] = ident(name)
	}
	fun := call.Fun
	switch fun.(type) {
	case *ast.FuncLit, *ast.Ident, *ast.SelectorExpr, *ast.IndexExpr, *ast.IndexListExpr:
		// evaluated inside the task: a function literal, a (possibly generic) function name,
		// or a method value whose receiver expression is re-evaluated (documented imprecision)
	default:
		name := r.fresh("f")
		pre = append(pre, &ast.AssignStmt{Lhs: []ast.Expr{ident(name)}, Tok: token.DEFINE, Rhs: []ast.Expr{fun}})
		fun = ident(name)
	}
	inner := &ast.CallExpr{Fun: fun, Args: newArgs, Ellipsis: call.Ellipsis}
	if call.Ellipsis.IsValid() {
		inner.Ellipsis = 1
	}
	lit := &ast.FuncLit{Type: &ast.FuncType{Params: &ast.FieldList{}}, Body: &ast.BlockStmt{List: []ast.Stmt{&ast.ExprStmt{X: inner}}}}
	pre = append(pre, &ast.ExprStmt{X: simrtCall("Go", lit)})
	return &ast.BlockStmt{List: pre}
}

func (r *rewriter) rewriteSelect(s *ast.SelectStmt) []ast.Stmt {
	hasDefault := false
	simple := true
	for _, c := range s.Body.List {
		cc := c.(*ast.CommClause)
		if cc.Comm == nil {
			hasDefault = true
			continue
		}
		es, ok := cc.Comm.(*ast.ExprStmt)
		if !ok {
			simple = false
			continue
		}
		u, ok := es.X.(*ast.UnaryExpr)
		if !ok || u.Op != token.ARROW {
			simple = false
		}
	}
	if hasDefault {
		return []ast.Stmt{s} // non-blocking: deterministic given the channel states
	}
	r.needSimrt = true
	if simple && len(s.Body.List) > 0 {
		r.note(s.Pos(), "select -> simrt.Select")
		var chans []ast.Expr
		var clauses []ast.Stmt
		for i, c := range s.Body.List {
			cc := c.(*ast.CommClause)
			chans = append(chans, cc.Comm.(*ast.ExprStmt).X.(*ast.UnaryExpr).X)
			clauses = append(clauses, &ast.CaseClause{
				List: []ast.Expr{&ast.BasicLit{Kind: token.INT, Value: strconv.Itoa(i)}},
				Body: cc.Body,
			})
		}
		// a default clause that panics keeps the switch a terminating statement whenever the select was one
		clauses = append(clauses, &ast.CaseClause{Body: []ast.Stmt{&ast.ExprStmt{X: &ast.CallExpr{Fun: ident("panic"),
			Args: []ast.Expr{&ast.BasicLit{Kind: token.STRING, Value: strconv.Quote("simrt.Select: impossible index")}}}}}})
		return []ast.Stmt{&ast.SwitchStmt{Tag: simrtCall("Select", chans...), Body: &ast.BlockStmt{List: clauses}}}
	}
	r.note(s.Pos(), "select (annotated, Go's own choice among ready cases)")
	tok := r.fresh("tok")
	var pre []ast.Stmt
	for _, c := range s.Body.List {
		cc := c.(*ast.CommClause)
		if cc.Comm != nil {
			pre = append(pre, r.hoistOperands(cc.Comm)...) // Go evaluates all operands on entering the select, in source order
		}
		cc.Body = append([]ast.Stmt{&ast.ExprStmt{X: simrtCall("AfterBlock", ident(tok))}}, cc.Body...)
	}
	return append(pre,
		&ast.AssignStmt{Lhs: []ast.Expr{ident(tok)}, Tok: token.DEFINE, Rhs: []ast.Expr{simrtCall("BeforeBlock")}},
		s,
	)
}
