module instrument

go 1.25
