// Package simsync is a drop-in replacement for package sync whose primitives
// are scheduler decision points and simulated blocking points when a simrt
// simulation is active, and the real primitives otherwise.
package simsync

import (
	"fmt"
	"sync"

	"simshim/simrt"
)

type Locker = sync.Locker
type Pool = sync.Pool

//go:norace
func OnceFunc(f func()) func() { var o Once; return func() { o.Do(f) } }

//go:norace
func OnceValue[T any](f func() T) func() T {
	var o Once
	var v T
	return func() T { o.Do(func() { v = f() }); return v }
}

//go:norace
func OnceValues[A, B any](f func() (A, B)) func() (A, B) {
	var o Once
	var a A
	var b B
	return func() (A, B) { o.Do(func() { a, b = f() }); return a, b }
}

// ---------------------------------------------------------------- Mutex

type Mutex struct {
	real   sync.Mutex
	locked bool
	owner  *simrt.Task
}

//go:norace
func (m *Mutex) SimDescribe() string {
	return fmt.Sprintf("Mutex@%p held by %v", m, m.owner)
}

//go:norace
func (m *Mutex) Lock() {
	if simrt.Active() == nil {
		m.real.Lock()
		return
	}
	if simrt.Dying() {
		return
	}
	simrt.Yield(simrt.SiteMutexLock)
	for m.locked && !simrt.Dying() {
		simrt.BlockOn(m, simrt.SiteMutexLock)
	}
	m.locked = true
	m.owner = simrt.Current()
	raceAcquire(m)
}

//go:norace
func (m *Mutex) TryLock() bool {
	if simrt.Active() == nil {
		return m.real.TryLock()
	}
	if simrt.Dying() {
		return true
	}
	simrt.Yield(simrt.SiteMutexLock)
	if m.locked {
		return false
	}
	m.locked = true
	m.owner = simrt.Current()
	raceAcquire(m)
	return true
}

//go:norace
func (m *Mutex) Unlock() {
	if simrt.Active() == nil {
		m.real.Unlock()
		return
	}
	if simrt.Dying() {
		return
	}
	if !m.locked {
		simrt.Misuse("sync: unlock of unlocked mutex")
		panic("sync: unlock of unlocked mutex")
	}
	raceRelease(m)
	m.locked = false
	m.owner = nil
	simrt.WakeAll(m)
	simrt.Yield(simrt.SiteMutexUnlock)
}

// ---------------------------------------------------------------- RWMutex

type RWMutex struct {
	real     sync.RWMutex
	w        bool
	r        int
	wWaiting int
	owner    *simrt.Task
	readers  []*simrt.Task
	// addresses standing in for sync.RWMutex's semaphores in the race annotations
	readerSem, writerSem uint32
}

//go:norace
func (rw *RWMutex) SimDescribe() string {
	return fmt.Sprintf("RWMutex@%p writer=%v readers=%v writersWaiting=%d", rw, rw.owner, rw.readers, rw.wWaiting)
}

// The reader list is bookkeeping for the deadlock report. Readers touch it without any
// happens-before edge between them (as with the real RWMutex's reader count, which is atomic),
// so it must stay invisible to the race detector: element-by-element stores in norace
// functions only -- append and copy would go through runtime helpers (growslice, slicecopy)
// that report to the detector whatever the caller's norace says.

//go:norace
func (rw *RWMutex) addReader(t *simrt.Task) {
	n := len(rw.readers)
	if n == cap(rw.readers) {
		bigger := make([]*simrt.Task, n, 2*n+4)
		for i := 0; i < n; i++ {
			bigger[i] = rw.readers[i]
		}
		rw.readers = bigger
	}
	rw.readers = rw.readers[:n+1]
	rw.readers[n] = t
}

//go:norace
func (rw *RWMutex) dropReader(t *simrt.Task) {
	for i := range rw.readers {
		if rw.readers[i] == t {
			for j := i; j+1 < len(rw.readers); j++ {
				rw.readers[j] = rw.readers[j+1]
			}
			rw.readers[len(rw.readers)-1] = nil
			rw.readers = rw.readers[:len(rw.readers)-1]
			return
		}
	}
}

//go:norace
func (rw *RWMutex) RLock() {
	if simrt.Active() == nil {
		rw.real.RLock()
		return
	}
	if simrt.Dying() {
		return
	}
	simrt.Yield(simrt.SiteRLock)
	// writer-preferring, like sync.RWMutex: a pending writer blocks new readers
	for (rw.w || rw.wWaiting > 0) && !simrt.Dying() {
		simrt.BlockOn(rw, simrt.SiteRLock)
	}
	rw.r++
	rw.addReader(simrt.Current())
	raceAcquireAddr(&rw.readerSem)
}

//go:norace
func (rw *RWMutex) TryRLock() bool {
	if simrt.Active() == nil {
		return rw.real.TryRLock()
	}
	simrt.Yield(simrt.SiteRLock)
	if rw.w || rw.wWaiting > 0 {
		return false
	}
	rw.r++
	rw.addReader(simrt.Current())
	raceAcquireAddr(&rw.readerSem)
	return true
}

//go:norace
func (rw *RWMutex) RUnlock() {
	if simrt.Active() == nil {
		rw.real.RUnlock()
		return
	}
	if simrt.Dying() {
		return
	}
	if rw.r == 0 {
		simrt.Misuse("sync: RUnlock of unlocked RWMutex")
		panic("sync: RUnlock of unlocked RWMutex")
	}
	raceReleaseMergeAddr(&rw.writerSem)
	rw.r--
	me := simrt.Current()
	rw.dropReader(me)
	simrt.WakeAll(rw)
	simrt.Yield(simrt.SiteRUnlock)
}

//go:norace
func (rw *RWMutex) Lock() {
	if simrt.Active() == nil {
		rw.real.Lock()
		return
	}
	if simrt.Dying() {
		return
	}
	simrt.Yield(simrt.SiteWLock)
	rw.wWaiting++
	for (rw.w || rw.r > 0) && !simrt.Dying() {
		simrt.BlockOn(rw, simrt.SiteWLock)
	}
	rw.wWaiting--
	rw.w = true
	rw.owner = simrt.Current()
	raceAcquireAddr(&rw.readerSem)
	raceAcquireAddr(&rw.writerSem)
}

//go:norace
func (rw *RWMutex) TryLock() bool {
	if simrt.Active() == nil {
		return rw.real.TryLock()
	}
	simrt.Yield(simrt.SiteWLock)
	if rw.w || rw.r > 0 {
		return false
	}
	rw.w = true
	rw.owner = simrt.Current()
	raceAcquireAddr(&rw.readerSem)
	raceAcquireAddr(&rw.writerSem)
	return true
}

//go:norace
func (rw *RWMutex) Unlock() {
	if simrt.Active() == nil {
		rw.real.Unlock()
		return
	}
	if simrt.Dying() {
		return
	}
	if !rw.w {
		simrt.Misuse("sync: Unlock of unlocked RWMutex")
		panic("sync: Unlock of unlocked RWMutex")
	}
	// like sync.RWMutex: readers acquire what writers release (readerSem), writers acquire what
	// readers and earlier writers release (writerSem); readers do not synchronise with each other
	raceReleaseAddr(&rw.readerSem)
	raceReleaseMergeAddr(&rw.writerSem)
	rw.w = false
	rw.owner = nil
	simrt.WakeAll(rw)
	simrt.Yield(simrt.SiteWUnlock)
}

//go:norace
func (rw *RWMutex) RLocker() Locker { return (*rlocker)(rw) }

type rlocker RWMutex

//go:norace
func (r *rlocker) Lock() { (*RWMutex)(r).RLock() }

//go:norace
func (r *rlocker) Unlock() { (*RWMutex)(r).RUnlock() }

// ---------------------------------------------------------------- WaitGroup

type WaitGroup struct {
	real sync.WaitGroup
	n    int
	sema int // modelled racy word for the WaitGroup misuse detector (see race.go)
}

//go:norace
func (wg *WaitGroup) SimDescribe() string { return fmt.Sprintf("WaitGroup@%p counter=%d", wg, wg.n) }

//go:norace
func (wg *WaitGroup) Add(delta int) {
	if simrt.Active() == nil {
		wg.real.Add(delta)
		return
	}
	if simrt.Dying() {
		return
	}
	simrt.Yield(simrt.SiteWGAdd)
	if delta < 0 {
		raceReleaseMerge(wg)
	}
	if delta > 0 && wg.n == 0 {
		raceWGFirstAdd(wg)
	}
	wg.n += delta
	if wg.n < 0 {
		simrt.Misuse("sync: negative WaitGroup counter")
		panic("sync: negative WaitGroup counter")
	}
	if wg.n == 0 {
		simrt.WakeAll(wg)
	}
}

//go:norace
func (wg *WaitGroup) Done() { wg.Add(-1) }

//go:norace
func (wg *WaitGroup) Wait() {
	if simrt.Active() == nil {
		wg.real.Wait()
		return
	}
	if simrt.Dying() {
		return
	}
	simrt.Yield(simrt.SiteWGWait)
	if wg.n > 0 {
		raceWGFirstWait(wg)
	}
	for wg.n > 0 && !simrt.Dying() {
		simrt.BlockOn(wg, simrt.SiteWGWait)
	}
	raceAcquire(wg)
}

//go:norace
func (wg *WaitGroup) Go(f func()) {
	wg.Add(1)
	simrt.Go(func() {
		defer wg.Done()
		f()
	})
}

// ---------------------------------------------------------------- Once

type Once struct {
	real    sync.Once
	done    bool
	running bool
}

//go:norace
func (o *Once) Do(f func()) {
	if simrt.Active() == nil {
		o.real.Do(f)
		return
	}
	if simrt.Dying() {
		return
	}
	simrt.Yield(simrt.SiteOnce)
	for o.running && !o.done && !simrt.Dying() {
		simrt.BlockOn(o, simrt.SiteOnce)
	}
	if o.done {
		raceAcquire(o)
		return
	}
	o.running = true
	defer func() {
		raceRelease(o)
		o.done = true
		o.running = false
		simrt.WakeAll(o)
	}()
	f()
}

// ---------------------------------------------------------------- Cond

type Cond struct {
	L       Locker
	real    *sync.Cond
	waiters []*simrt.Task
}

//go:norace
func NewCond(l Locker) *Cond { return &Cond{L: l, real: sync.NewCond(l)} }

//go:norace
func (c *Cond) Wait() {
	if simrt.Active() == nil {
		c.real.Wait()
		return
	}
	if simrt.Dying() {
		return
	}
	me := simrt.Current()
	c.waiters = append(c.waiters, me)
	c.L.Unlock()
	for c.waiting(me) && !simrt.Dying() {
		simrt.BlockOn(c, simrt.SiteCond)
	}
	c.L.Lock()
}

//go:norace
func (c *Cond) waiting(t *simrt.Task) bool {
	for _, w := range c.waiters {
		if w == t {
			return true
		}
	}
	return false
}

//go:norace
func (c *Cond) Signal() {
	if simrt.Active() == nil {
		c.real.Signal()
		return
	}
	simrt.Yield(simrt.SiteCond)
	if len(c.waiters) > 0 {
		c.waiters = c.waiters[1:]
		simrt.WakeAll(c)
	}
}

//go:norace
func (c *Cond) Broadcast() {
	if simrt.Active() == nil {
		c.real.Broadcast()
		return
	}
	simrt.Yield(simrt.SiteCond)
	c.waiters = nil
	simrt.WakeAll(c)
}

// ---------------------------------------------------------------- Map

// Map is sync.Map with a decision point before every operation.
type Map struct{ real sync.Map }

//go:norace
func (m *Map) Load(k any) (any, bool) { simrt.Yield(simrt.SiteMap); return m.real.Load(k) }

//go:norace
func (m *Map) Store(k, v any) { simrt.Yield(simrt.SiteMap); m.real.Store(k, v) }

//go:norace
func (m *Map) LoadOrStore(k, v any) (any, bool) {
	simrt.Yield(simrt.SiteMap)
	return m.real.LoadOrStore(k, v)
}

//go:norace
func (m *Map) LoadAndDelete(k any) (any, bool) {
	simrt.Yield(simrt.SiteMap)
	return m.real.LoadAndDelete(k)
}

//go:norace
func (m *Map) Delete(k any) { simrt.Yield(simrt.SiteMap); m.real.Delete(k) }

//go:norace
func (m *Map) Swap(k, v any) (any, bool) { simrt.Yield(simrt.SiteMap); return m.real.Swap(k, v) }

//go:norace
func (m *Map) CompareAndSwap(k, o, n any) bool {
	simrt.Yield(simrt.SiteMap)
	return m.real.CompareAndSwap(k, o, n)
}

//go:norace
func (m *Map) CompareAndDelete(k, o any) bool {
	simrt.Yield(simrt.SiteMap)
	return m.real.CompareAndDelete(k, o)
}

//go:norace
func (m *Map) Range(f func(k, v any) bool) { simrt.Yield(simrt.SiteMap); m.real.Range(f) }

//go:norace
func (m *Map) Clear() { simrt.Yield(simrt.SiteMap); m.real.Clear() }
