// Package simsync is a drop-in replacement for package sync whose primitives
// are scheduler decision points and simulated blocking points when a simrt
// simulation is active, and the real primitives otherwise.
package simsync

import (
	"fmt"
	"sync"

	"simshim/simrt"
)

type Locker = sync.Locker
type Pool = sync.Pool

func OnceFunc(f func()) func() { var o Once; return func() { o.Do(f) } }
func OnceValue[T any](f func() T) func() T {
	var o Once
	var v T
	return func() T { o.Do(func() { v = f() }); return v }
}
func OnceValues[A, B any](f func() (A, B)) func() (A, B) {
	var o Once
	var a A
	var b B
	return func() (A, B) { o.Do(func() { a, b = f() }); return a, b }
}

// ---------------------------------------------------------------- Mutex

type Mutex struct {
	real   sync.Mutex
	locked bool
	owner  *simrt.Task
}

func (m *Mutex) SimDescribe() string {
	return fmt.Sprintf("Mutex@%p held by %v", m, m.owner)
}

func (m *Mutex) Lock() {
	if simrt.Active() == nil {
		m.real.Lock()
		return
	}
	if simrt.Dying() {
		return
	}
	simrt.Yield(simrt.SiteMutexLock)
	for m.locked && !simrt.Dying() {
		simrt.BlockOn(m, simrt.SiteMutexLock)
	}
	m.locked = true
	m.owner = simrt.Current()
	raceAcquire(m)
}

func (m *Mutex) TryLock() bool {
	if simrt.Active() == nil {
		return m.real.TryLock()
	}
	if simrt.Dying() {
		return true
	}
	simrt.Yield(simrt.SiteMutexLock)
	if m.locked {
		return false
	}
	m.locked = true
	m.owner = simrt.Current()
	raceAcquire(m)
	return true
}

func (m *Mutex) Unlock() {
	if simrt.Active() == nil {
		m.real.Unlock()
		return
	}
	if simrt.Dying() {
		return
	}
	if !m.locked {
		simrt.Misuse("sync: unlock of unlocked mutex")
		panic("sync: unlock of unlocked mutex")
	}
	raceRelease(m)
	m.locked = false
	m.owner = nil
	simrt.WakeAll(m)
	simrt.Yield(simrt.SiteMutexUnlock)
}

// ---------------------------------------------------------------- RWMutex

type RWMutex struct {
	real     sync.RWMutex
	w        bool
	r        int
	wWaiting int
	owner    *simrt.Task
	readers  []*simrt.Task
}

func (rw *RWMutex) SimDescribe() string {
	return fmt.Sprintf("RWMutex@%p writer=%v readers=%v writersWaiting=%d", rw, rw.owner, rw.readers, rw.wWaiting)
}

func (rw *RWMutex) RLock() {
	if simrt.Active() == nil {
		rw.real.RLock()
		return
	}
	if simrt.Dying() {
		return
	}
	simrt.Yield(simrt.SiteRLock)
	// writer-preferring, like sync.RWMutex: a pending writer blocks new readers
	for (rw.w || rw.wWaiting > 0) && !simrt.Dying() {
		simrt.BlockOn(rw, simrt.SiteRLock)
	}
	rw.r++
	rw.readers = append(rw.readers, simrt.Current())
	raceAcquire(rw)
}

func (rw *RWMutex) TryRLock() bool {
	if simrt.Active() == nil {
		return rw.real.TryRLock()
	}
	simrt.Yield(simrt.SiteRLock)
	if rw.w || rw.wWaiting > 0 {
		return false
	}
	rw.r++
	rw.readers = append(rw.readers, simrt.Current())
	raceAcquire(rw)
	return true
}

func (rw *RWMutex) RUnlock() {
	if simrt.Active() == nil {
		rw.real.RUnlock()
		return
	}
	if simrt.Dying() {
		return
	}
	if rw.r == 0 {
		simrt.Misuse("sync: RUnlock of unlocked RWMutex")
		panic("sync: RUnlock of unlocked RWMutex")
	}
	raceReleaseMerge(rw)
	rw.r--
	me := simrt.Current()
	for i, t := range rw.readers {
		if t == me {
			rw.readers = append(rw.readers[:i], rw.readers[i+1:]...)
			break
		}
	}
	simrt.WakeAll(rw)
	simrt.Yield(simrt.SiteRUnlock)
}

func (rw *RWMutex) Lock() {
	if simrt.Active() == nil {
		rw.real.Lock()
		return
	}
	if simrt.Dying() {
		return
	}
	simrt.Yield(simrt.SiteWLock)
	rw.wWaiting++
	for (rw.w || rw.r > 0) && !simrt.Dying() {
		simrt.BlockOn(rw, simrt.SiteWLock)
	}
	rw.wWaiting--
	rw.w = true
	rw.owner = simrt.Current()
	raceAcquire(rw)
}

func (rw *RWMutex) TryLock() bool {
	if simrt.Active() == nil {
		return rw.real.TryLock()
	}
	simrt.Yield(simrt.SiteWLock)
	if rw.w || rw.r > 0 {
		return false
	}
	rw.w = true
	rw.owner = simrt.Current()
	raceAcquire(rw)
	return true
}

func (rw *RWMutex) Unlock() {
	if simrt.Active() == nil {
		rw.real.Unlock()
		return
	}
	if simrt.Dying() {
		return
	}
	if !rw.w {
		simrt.Misuse("sync: Unlock of unlocked RWMutex")
		panic("sync: Unlock of unlocked RWMutex")
	}
	raceRelease(rw)
	rw.w = false
	rw.owner = nil
	simrt.WakeAll(rw)
	simrt.Yield(simrt.SiteWUnlock)
}

func (rw *RWMutex) RLocker() Locker { return (*rlocker)(rw) }

type rlocker RWMutex

func (r *rlocker) Lock()   { (*RWMutex)(r).RLock() }
func (r *rlocker) Unlock() { (*RWMutex)(r).RUnlock() }

// ---------------------------------------------------------------- WaitGroup

type WaitGroup struct {
	real sync.WaitGroup
	n    int
	sema int // modelled racy word for the WaitGroup misuse detector (see race.go)
}

func (wg *WaitGroup) SimDescribe() string { return fmt.Sprintf("WaitGroup@%p counter=%d", wg, wg.n) }

func (wg *WaitGroup) Add(delta int) {
	if simrt.Active() == nil {
		wg.real.Add(delta)
		return
	}
	if simrt.Dying() {
		return
	}
	simrt.Yield(simrt.SiteWGAdd)
	if delta < 0 {
		raceReleaseMerge(wg)
	}
	if delta > 0 && wg.n == 0 {
		raceWGFirstAdd(wg)
	}
	wg.n += delta
	if wg.n < 0 {
		simrt.Misuse("sync: negative WaitGroup counter")
		panic("sync: negative WaitGroup counter")
	}
	if wg.n == 0 {
		simrt.WakeAll(wg)
	}
}

func (wg *WaitGroup) Done() { wg.Add(-1) }

func (wg *WaitGroup) Wait() {
	if simrt.Active() == nil {
		wg.real.Wait()
		return
	}
	if simrt.Dying() {
		return
	}
	simrt.Yield(simrt.SiteWGWait)
	if wg.n > 0 {
		raceWGFirstWait(wg)
	}
	for wg.n > 0 && !simrt.Dying() {
		simrt.BlockOn(wg, simrt.SiteWGWait)
	}
	raceAcquire(wg)
}

func (wg *WaitGroup) Go(f func()) {
	wg.Add(1)
	simrt.Go(func() {
		defer wg.Done()
		f()
	})
}

// ---------------------------------------------------------------- Once

type Once struct {
	real    sync.Once
	done    bool
	running bool
}

func (o *Once) Do(f func()) {
	if simrt.Active() == nil {
		o.real.Do(f)
		return
	}
	if simrt.Dying() {
		return
	}
	simrt.Yield(simrt.SiteOnce)
	for o.running && !o.done && !simrt.Dying() {
		simrt.BlockOn(o, simrt.SiteOnce)
	}
	if o.done {
		raceAcquire(o)
		return
	}
	o.running = true
	defer func() {
		raceRelease(o)
		o.done = true
		o.running = false
		simrt.WakeAll(o)
	}()
	f()
}

// ---------------------------------------------------------------- Cond

type Cond struct {
	L       Locker
	real    *sync.Cond
	waiters []*simrt.Task
}

func NewCond(l Locker) *Cond { return &Cond{L: l, real: sync.NewCond(l)} }

func (c *Cond) Wait() {
	if simrt.Active() == nil {
		c.real.Wait()
		return
	}
	if simrt.Dying() {
		return
	}
	me := simrt.Current()
	c.waiters = append(c.waiters, me)
	c.L.Unlock()
	for c.waiting(me) && !simrt.Dying() {
		simrt.BlockOn(c, simrt.SiteCond)
	}
	c.L.Lock()
}

func (c *Cond) waiting(t *simrt.Task) bool {
	for _, w := range c.waiters {
		if w == t {
			return true
		}
	}
	return false
}

func (c *Cond) Signal() {
	if simrt.Active() == nil {
		c.real.Signal()
		return
	}
	simrt.Yield(simrt.SiteCond)
	if len(c.waiters) > 0 {
		c.waiters = c.waiters[1:]
		simrt.WakeAll(c)
	}
}

func (c *Cond) Broadcast() {
	if simrt.Active() == nil {
		c.real.Broadcast()
		return
	}
	simrt.Yield(simrt.SiteCond)
	c.waiters = nil
	simrt.WakeAll(c)
}

// ---------------------------------------------------------------- Map

// Map is sync.Map with a decision point before every operation.
type Map struct{ real sync.Map }

func (m *Map) Load(k any) (any, bool) { simrt.Yield(simrt.SiteMap); return m.real.Load(k) }
func (m *Map) Store(k, v any)         { simrt.Yield(simrt.SiteMap); m.real.Store(k, v) }
func (m *Map) LoadOrStore(k, v any) (any, bool) {
	simrt.Yield(simrt.SiteMap)
	return m.real.LoadOrStore(k, v)
}
func (m *Map) LoadAndDelete(k any) (any, bool) {
	simrt.Yield(simrt.SiteMap)
	return m.real.LoadAndDelete(k)
}
func (m *Map) Delete(k any)              { simrt.Yield(simrt.SiteMap); m.real.Delete(k) }
func (m *Map) Swap(k, v any) (any, bool) { simrt.Yield(simrt.SiteMap); return m.real.Swap(k, v) }
func (m *Map) CompareAndSwap(k, o, n any) bool {
	simrt.Yield(simrt.SiteMap)
	return m.real.CompareAndSwap(k, o, n)
}
func (m *Map) CompareAndDelete(k, o any) bool {
	simrt.Yield(simrt.SiteMap)
	return m.real.CompareAndDelete(k, o)
}
func (m *Map) Range(f func(k, v any) bool) { simrt.Yield(simrt.SiteMap); m.real.Range(f) }
func (m *Map) Clear()                      { simrt.Yield(simrt.SiteMap); m.real.Clear() }
