//go:build race

package simsync

import (
	"runtime"
	"unsafe"
)

// In a -race build the simulator's own hand-offs are invisible to the race
// detector (see simrt), so the shims add back exactly the happens-before edges
// the real sync primitives give.

//go:norace
func raceAcquire(p any) { runtime.RaceAcquire(ptr(p)) }

//go:norace
func raceRelease(p any) { runtime.RaceRelease(ptr(p)) }

//go:norace
func raceReleaseMerge(p any) { runtime.RaceReleaseMerge(ptr(p)) }

//go:norace
func raceAcquireAddr(p *uint32) { runtime.RaceAcquire(unsafe.Pointer(p)) }

//go:norace
func raceReleaseAddr(p *uint32) { runtime.RaceRelease(unsafe.Pointer(p)) }

//go:norace
func raceReleaseMergeAddr(p *uint32) { runtime.RaceReleaseMerge(unsafe.Pointer(p)) }

//go:norace
func ptr(p any) unsafe.Pointer {
	switch v := p.(type) {
	case *Mutex:
		return unsafe.Pointer(v)
	case *RWMutex:
		return unsafe.Pointer(v)
	case *WaitGroup:
		return unsafe.Pointer(v)
	case *Once:
		return unsafe.Pointer(v)
	}
	panic("simsync: unknown primitive")
}

// Go's own WaitGroup models its documented misuse ("calls with a positive delta that occur
// when the counter is zero must happen before a Wait") as a read of a sema word on the first
// increment and a write on the first blocking Wait. The two functions below are deliberately
// NOT norace: their plain accesses to wg.sema are what the detector sees.

func raceWGFirstAdd(wg *WaitGroup) { WaitGroupAddFromZeroConcurrentWithWait(wg) }

func raceWGFirstWait(wg *WaitGroup) { WaitGroupWaitConcurrentWithAddFromZero(wg) }

// The two functions below exist to put a descriptive frame into the race report.

//go:noinline
func WaitGroupAddFromZeroConcurrentWithWait(wg *WaitGroup) {
	runtime.RaceRead(unsafe.Pointer(&wg.sema))
}

//go:noinline
func WaitGroupWaitConcurrentWithAddFromZero(wg *WaitGroup) {
	runtime.RaceWrite(unsafe.Pointer(&wg.sema))
}
