//go:build !race

package simsync

func raceAcquire(p any)             {}
func raceRelease(p any)             {}
func raceReleaseMerge(p any)        {}
func raceWGFirstAdd(wg *WaitGroup)  {}
func raceWGFirstWait(wg *WaitGroup) {}

func raceAcquireAddr(p *uint32)      {}
func raceReleaseAddr(p *uint32)      {}
func raceReleaseMergeAddr(p *uint32) {}
