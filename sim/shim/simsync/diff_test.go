package simsync_test

import (
	"math/rand"
	"sync"
	"testing"
	"testing/synctest"

	"simshim/simrt"
	"simshim/simsync"
)

// Differential test: the simulated primitives and the real ones are driven through the same
// random single-task sequences of non-blocking operations (TryLock / TryRLock / Unlock / RUnlock /
// WaitGroup Add-Done-Wait at zero) and must agree on every observable result.
func TestDifferentialAgainstRealSync(t *testing.T) {
	for seed := int64(1); seed <= 300; seed++ {
		rng := rand.New(rand.NewSource(seed))
		synctest.Test(t, func(t *testing.T) {
			rep := simrt.Run(simrt.Config{}, func() {
				var sm simsync.Mutex
				var rm sync.Mutex
				var srw simsync.RWMutex
				var rrw sync.RWMutex
				var swg simsync.WaitGroup
				var rwg sync.WaitGroup
				mLocked, w, r, n := false, false, 0, 0
				for i := 0; i < 200; i++ {
					switch rng.Intn(9) {
					case 0:
						a, b := sm.TryLock(), rm.TryLock()
						if a != b || a == mLocked {
							t.Fatalf("seed %d step %d: Mutex.TryLock sim=%v real=%v modelLocked=%v", seed, i, a, b, mLocked)
						}
						mLocked = mLocked || a
					case 1:
						if mLocked {
							sm.Unlock()
							rm.Unlock()
							mLocked = false
						}
					case 2:
						a, b := srw.TryLock(), rrw.TryLock()
						if a != b {
							t.Fatalf("seed %d step %d: RWMutex.TryLock sim=%v real=%v (w=%v r=%d)", seed, i, a, b, w, r)
						}
						w = w || a
					case 3:
						if w {
							srw.Unlock()
							rrw.Unlock()
							w = false
						}
					case 4:
						a, b := srw.TryRLock(), rrw.TryRLock()
						if a != b {
							t.Fatalf("seed %d step %d: RWMutex.TryRLock sim=%v real=%v (w=%v r=%d)", seed, i, a, b, w, r)
						}
						if a {
							r++
						}
					case 5:
						if r > 0 {
							srw.RUnlock()
							rrw.RUnlock()
							r--
						}
					case 6:
						swg.Add(1)
						rwg.Add(1)
						n++
					case 7:
						if n > 0 {
							swg.Done()
							rwg.Done()
							n--
						}
					case 8:
						if n == 0 {
							swg.Wait() // must not block at zero
							rwg.Wait()
						}
					}
				}
			})
			if rep.Deadlock || rep.BudgetExceeded || len(rep.Panics) > 0 || rep.HarnessError != "" {
				t.Fatalf("seed %d: %+v", seed, rep)
			}
		})
	}
}

// Like sync.RWMutex, the simulated one is writer-preferring: a second RLock by a task that already
// holds a read lock blocks behind a pending writer. The scheduler must report that as a deadlock.
func TestRecursiveReadLockBehindWriterDeadlocks(t *testing.T) {
	synctest.Test(t, func(t *testing.T) {
		var rw simsync.RWMutex
		rep := simrt.Run(simrt.Config{Tape: []uint32{1, 1, 1, 1, 1, 1, 1, 1}}, func() {
			rw.RLock()
			simrt.GoNamed("writer", func() { rw.Lock(); rw.Unlock() })
			for i := 0; i < 4; i++ {
				simrt.Yield(simrt.SiteUser) // let the writer reach its Lock
			}
			rw.RLock()
			rw.RUnlock()
			rw.RUnlock()
		})
		if !rep.Deadlock {
			t.Fatalf("expected a deadlock verdict, got %+v", rep)
		}
	})
}

// Mutual exclusion and blocking: N tasks increment a counter under a simulated mutex with yields inside.
func TestMutexExcludesUnderEverySchedule(t *testing.T) {
	for seed := int64(1); seed <= 200; seed++ {
		rng := rand.New(rand.NewSource(seed))
		tape := make([]uint32, 200)
		for i := range tape {
			tape[i] = uint32(rng.Intn(4))
		}
		synctest.Test(t, func(t *testing.T) {
			var mu simsync.Mutex
			inside, total := 0, 0
			rep := simrt.Run(simrt.Config{Tape: tape}, func() {
				var ts []*simrt.Task
				for k := 0; k < 4; k++ {
					ts = append(ts, simrt.GoNamed("w", func() {
						for j := 0; j < 5; j++ {
							mu.Lock()
							inside++
							if inside != 1 {
								t.Errorf("seed %d: two tasks inside the critical section", seed)
							}
							simrt.Yield(simrt.SiteUser)
							total++
							inside--
							mu.Unlock()
						}
					}))
				}
				simrt.Join(ts...)
			})
			if rep.Deadlock || total != 20 {
				t.Fatalf("seed %d: deadlock=%v total=%d", seed, rep.Deadlock, total)
			}
		})
	}
}
