package simsync_test

import (
	"context"
	"fmt"
	"math/rand"
	"sync"
	"testing"
	"testing/synctest"
	"time"

	"simshim/simrt"
	"simshim/simsync"
)

// Differential test: the simulated primitives and the real ones are driven through the same
// random single-task sequences of non-blocking operations (TryLock / TryRLock / Unlock / RUnlock /
// WaitGroup Add-Done-Wait at zero) and must agree on every observable result.
func TestDifferentialAgainstRealSync(t *testing.T) {
	for seed := int64(1); seed <= 300; seed++ {
		rng := rand.New(rand.NewSource(seed))
		synctest.Test(t, func(t *testing.T) {
			rep := simrt.Run(simrt.Config{}, func() {
				var sm simsync.Mutex
				var rm sync.Mutex
				var srw simsync.RWMutex
				var rrw sync.RWMutex
				var swg simsync.WaitGroup
				var rwg sync.WaitGroup
				mLocked, w, r, n := false, false, 0, 0
				for i := 0; i < 200; i++ {
					switch rng.Intn(9) {
					case 0:
						a, b := sm.TryLock(), rm.TryLock()
						if a != b || a == mLocked {
							t.Fatalf("seed %d step %d: Mutex.TryLock sim=%v real=%v modelLocked=%v", seed, i, a, b, mLocked)
						}
						mLocked = mLocked || a
					case 1:
						if mLocked {
							sm.Unlock()
							rm.Unlock()
							mLocked = false
						}
					case 2:
						a, b := srw.TryLock(), rrw.TryLock()
						if a != b {
							t.Fatalf("seed %d step %d: RWMutex.TryLock sim=%v real=%v (w=%v r=%d)", seed, i, a, b, w, r)
						}
						w = w || a
					case 3:
						if w {
							srw.Unlock()
							rrw.Unlock()
							w = false
						}
					case 4:
						a, b := srw.TryRLock(), rrw.TryRLock()
						if a != b {
							t.Fatalf("seed %d step %d: RWMutex.TryRLock sim=%v real=%v (w=%v r=%d)", seed, i, a, b, w, r)
						}
						if a {
							r++
						}
					case 5:
						if r > 0 {
							srw.RUnlock()
							rrw.RUnlock()
							r--
						}
					case 6:
						swg.Add(1)
						rwg.Add(1)
						n++
					case 7:
						if n > 0 {
							swg.Done()
							rwg.Done()
							n--
						}
					case 8:
						if n == 0 {
							swg.Wait() // must not block at zero
							rwg.Wait()
						}
					}
				}
			})
			if rep.Deadlock || rep.BudgetExceeded || len(rep.Panics) > 0 || rep.HarnessError != "" {
				t.Fatalf("seed %d: %+v", seed, rep)
			}
		})
	}
}

// Like sync.RWMutex, the simulated one is writer-preferring: a second RLock by a task that already
// holds a read lock blocks behind a pending writer. The scheduler must report that as a deadlock.
func TestRecursiveReadLockBehindWriterDeadlocks(t *testing.T) {
	synctest.Test(t, func(t *testing.T) {
		var rw simsync.RWMutex
		rep := simrt.Run(simrt.Config{Tape: []uint32{1, 1, 1, 1, 1, 1, 1, 1}}, func() {
			rw.RLock()
			simrt.GoNamed("writer", func() { rw.Lock(); rw.Unlock() })
			for i := 0; i < 4; i++ {
				simrt.Yield(simrt.SiteUser) // let the writer reach its Lock
			}
			rw.RLock()
			rw.RUnlock()
			rw.RUnlock()
		})
		if !rep.Deadlock {
			t.Fatalf("expected a deadlock verdict, got %+v", rep)
		}
	})
}

// Mutual exclusion and blocking: N tasks increment a counter under a simulated mutex with yields inside.
func TestMutexExcludesUnderEverySchedule(t *testing.T) {
	for seed := int64(1); seed <= 200; seed++ {
		rng := rand.New(rand.NewSource(seed))
		tape := make([]uint32, 200)
		for i := range tape {
			tape[i] = uint32(rng.Intn(4))
		}
		synctest.Test(t, func(t *testing.T) {
			var mu simsync.Mutex
			inside, total := 0, 0
			rep := simrt.Run(simrt.Config{Tape: tape}, func() {
				var ts []*simrt.Task
				for k := 0; k < 4; k++ {
					ts = append(ts, simrt.GoNamed("w", func() {
						for j := 0; j < 5; j++ {
							mu.Lock()
							inside++
							if inside != 1 {
								t.Errorf("seed %d: two tasks inside the critical section", seed)
							}
							simrt.Yield(simrt.SiteUser)
							total++
							inside--
							mu.Unlock()
						}
					}))
				}
				simrt.Join(ts...)
			})
			if rep.Deadlock || total != 20 {
				t.Fatalf("seed %d: deadlock=%v total=%d", seed, rep.Deadlock, total)
			}
		})
	}
}

// Callbacks that the Go runtime starts on goroutines of its own (context.AfterFunc, time.AfterFunc) run as
// tasks: the same tape gives the same schedule trace every time, the callback's effects are ordered by the
// simulated primitives like any task's, and a callback that can never fire does not mask a deadlock.
func TestRuntimeCallbacksAreTasksAndReplay(t *testing.T) {
	run := func(tape []uint32, sleeper bool) (uint64, []string, bool) {
		var log []string
		var rep *simrt.Report
		synctest.Test(t, func(t *testing.T) {
			var mu simsync.Mutex
			rep = simrt.Run(simrt.Config{Tape: tape}, func() {
				ctx, cancel := context.WithCancel(context.Background())
				stop := simrt.ContextAfterFunc(ctx, func() {
					mu.Lock()
					log = append(log, "ctx-callback")
					mu.Unlock()
				})
				tctx, tcancel := context.WithTimeout(context.Background(), 50*time.Millisecond)
				defer tcancel()
				simrt.ContextAfterFunc(tctx, func() {
					mu.Lock()
					log = append(log, "deadline-callback")
					mu.Unlock()
				})
				simrt.TimeAfterFunc(20*time.Millisecond, func() {
					mu.Lock()
					log = append(log, "timer-callback")
					mu.Unlock()
				})
				never, nevercancel := context.WithCancel(context.Background())
				defer nevercancel()
				stopNever := simrt.ContextAfterFunc(never, func() { t.Error("a callback whose context was never cancelled ran") })
				var ts []*simrt.Task
				for k := 0; k < 3; k++ {
					k := k
					ts = append(ts, simrt.GoNamed("w", func() {
						for j := 0; j < 3; j++ {
							mu.Lock()
							log = append(log, fmt.Sprintf("w%d.%d", k, j))
							simrt.Yield(simrt.SiteUser)
							mu.Unlock()
							if k == 1 && j == 1 {
								cancel()
							}
						}
					}))
				}
				simrt.Join(ts...)
				if sleeper {
					simrt.Sleep(100 * time.Millisecond) // simulated time passes: the timer and the deadline fire
				}
				if stop() {
					t.Error("stop() reported that the cancelled context's callback had not been started")
				}
				if !stopNever() {
					t.Error("stop() of a callback that never fired returned false")
				}
			})
		})
		return rep.TraceHash, log, rep.Deadlock
	}
	for seed := int64(1); seed <= 60; seed++ {
		rng := rand.New(rand.NewSource(seed))
		tape := make([]uint32, 300)
		for i := range tape {
			tape[i] = uint32(rng.Intn(5))
		}
		h1, l1, d1 := run(tape, true)
		h2, l2, d2 := run(tape, true)
		if h1 != h2 || fmt.Sprint(l1) != fmt.Sprint(l2) || d1 || d2 {
			t.Fatalf("seed %d: two runs of one tape differ or deadlock: %x %v %v / %x %v %v", seed, h1, l1, d1, h2, l2, d2)
		}
		count := map[string]int{}
		for _, e := range l1 {
			count[e]++
		}
		if count["ctx-callback"] != 1 || count["deadline-callback"] != 1 || count["timer-callback"] != 1 || len(l1) != 12 {
			t.Fatalf("seed %d: callbacks did not each run exactly once: %v", seed, l1)
		}
	}
}
