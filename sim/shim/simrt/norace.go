//go:build !race

package simrt

const RaceEnabled = false

func raceRelease(t *Task) {}
func raceAcquire(t *Task) {}
func raceDisable()        {}
func raceEnable()         {}
