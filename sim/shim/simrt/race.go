//go:build race

package simrt

import (
	"runtime"
	"unsafe"
)

// RaceEnabled reports whether the binary was built with -race.
const RaceEnabled = true

//go:norace
func raceRelease(t *Task) { runtime.RaceRelease(unsafe.Pointer(t)) }

//go:norace
func raceAcquire(t *Task) { runtime.RaceAcquire(unsafe.Pointer(t)) }

//go:norace
func raceDisable() { runtime.RaceDisable() }

//go:norace
func raceEnable() { runtime.RaceEnable() }
