// Package simrt is the deterministic simulator runtime used to decide the ebu
// properties: every simulated task is a real goroutine, but at most one of them
// is runnable at any moment; which one proceeds at each decision point is taken
// from a choice tape, so one (scenario, tape) pair is one exactly repeatable
// execution. The package must be used inside a testing/synctest bubble: the
// scheduler relies on synctest.Wait for quiescence and on the bubble's fake
// clock for time.
//
// When no simulation is active every entry point degrades to the real thing
// (Go -> go, Yield -> nothing), which is what lets the instrumented copy of the
// repository still pass its own test-suite (fidelity self-test).
package simrt

import (
	"context"
	"fmt"
	"reflect"
	"runtime"
	"runtime/debug"
	"sort"
	"strings"
	"sync"
	"sync/atomic"
	"testing/synctest"
	"time"
)

// Site identifies the kind of a decision point (for traces and signatures).
type Site uint16

const (
	SiteStart Site = iota
	SiteGo
	SiteMutexLock
	SiteMutexUnlock
	SiteRLock
	SiteRUnlock
	SiteWLock
	SiteWUnlock
	SiteWGAdd
	SiteWGWait
	SiteAtomic
	SiteOnce
	SiteCond
	SiteMap
	SiteSelect
	SiteBlockWake
	SiteSleep
	SiteJoin
	SiteUser // harness yields: SiteUser+n
)

var siteNames = []string{"start", "go", "mu.Lock", "mu.Unlock", "rw.RLock", "rw.RUnlock", "rw.Lock", "rw.Unlock",
	"wg.Add", "wg.Wait", "atomic", "once", "cond", "map", "select", "blockwake", "sleep", "join"}

//go:norace
func (s Site) String() string {
	if int(s) < len(siteNames) {
		return siteNames[s]
	}
	return fmt.Sprintf("user%d", int(s)-int(SiteUser))
}

type state int32

const (
	stReady    state = iota // parked at a decision point; may be chosen
	stRunning               // released by the scheduler
	stBlocked               // parked, waiting on a simulated primitive
	stExternal              // inside an annotated real blocking operation
	stDone
	stDormant // a callback registered with the runtime (context.AfterFunc, time.AfterFunc) that has not fired
)

//go:norace
func (s state) String() string {
	return [...]string{"ready", "running", "blocked", "external", "done", "dormant"}[s]
}

// Task is one simulated thread of control.
type Task struct {
	ID        int
	Name      string
	Inc       int // process incarnation the task belongs to
	st        state
	wake      chan struct{}
	site      Site
	waitingOn any
	sim       *Sim
	Local     any // harness-owned per-task slot
}

//go:norace
func (t *Task) String() string { return fmt.Sprintf("T%d(%s)", t.ID, t.Name) }

// Done reports whether the task has finished.
//
//go:norace
func (t *Task) Done() bool {
	t.sim.mu.Lock()
	defer t.sim.mu.Unlock()
	return t.st == stDone
}

// PanicRec records a panic that escaped from a task's function.
type PanicRec struct {
	Task  string
	Value string
	Stack string
}

// Kill marks incarnation Inc dead when the scheduler reaches step Step.
type Kill struct {
	Step int
	Inc  int
}

// Config configures one run.
type Config struct {
	Tape      []uint32      // scheduling choices; exhausted => 0 (= keep running the current task / lowest id)
	MaxSteps  int           // step budget (decision points); 0 => 200000
	IdleLimit time.Duration // fake time to wait for an external wake-up before declaring deadlock; 0 => 24h
	Kills     []Kill
	KeepTrace bool // keep the full (task, site) trace, not only its hash
}

// Report is what one run produced.
type Report struct {
	Steps          int
	Choices        int // decision points at which more than one task was ready
	TapeUsed       int
	Preemptions    int
	Tasks          int
	TraceHash      uint64
	Trace          []uint32 // task<<16 | site, when KeepTrace
	FakeDuration   time.Duration
	Deadlock       bool
	DeadlockInfo   string
	BudgetExceeded bool
	Panics         []PanicRec
	HarnessError   string // not a verdict: unannotated block, misuse of simrt
	// RealBlock: all goroutine stacks at the moment the released task was found blocked for good in a real
	// (un-instrumented) blocking operation - even a minute of simulated time did not bring it back. HarnessError
	// is set too; a harness that knows the operation (a call into an un-instrumented store, say) may read this
	// as "the call never returned".
	RealBlock     string
	ExternalWaits int
	SyncMisuse     []string
}

// quietMutex is a mutex whose lock/unlock are invisible to the race detector:
// the simulator's own bookkeeping must not add happens-before edges between tasks.
type quietMutex struct{ mu sync.Mutex }

//go:norace
func (q *quietMutex) Lock() {
	raceDisable()
	q.mu.Lock()
	raceEnable()
}

//go:norace
func (q *quietMutex) Unlock() {
	raceDisable()
	q.mu.Unlock()
	raceEnable()
}

// Sim is one simulation.
type Sim struct {
	mu      quietMutex
	cfg     Config
	tasks   []*Task
	current *Task
	last    *Task
	tapePos int
	rep     Report
	wakeCh  chan struct{}
	dying   atomic.Bool
	stamp   int64
	dead    map[int]bool
	killIx  int
	start   time.Time
	hash    uint64
}

var cur atomic.Pointer[Sim]

// Active returns the running simulation, or nil.
//
//go:norace
func Active() *Sim { return cur.Load() }

// Dying reports whether the active simulation is being torn down (deferred
// calls of aborted tasks are running); harness callbacks must ignore such calls.
//
//go:norace
func Dying() bool {
	s := cur.Load()
	return s != nil && s.dying.Load()
}

// Run executes main as task 0 under the scheduler and returns when every task
// has finished, or the run was aborted (deadlock, budget, harness error).
// It must be called from the root goroutine of a synctest bubble.
//
//go:norace
func Run(cfg Config, main func()) *Report {
	if cfg.MaxSteps == 0 {
		cfg.MaxSteps = 200000
	}
	if cfg.IdleLimit == 0 {
		cfg.IdleLimit = 24 * time.Hour
	}
	s := &Sim{cfg: cfg, wakeCh: make(chan struct{}, 1), dead: map[int]bool{}, start: time.Now(), hash: 14695981039346656037}
	sort.SliceStable(s.cfg.Kills, func(i, j int) bool { return s.cfg.Kills[i].Step < s.cfg.Kills[j].Step })
	if !cur.CompareAndSwap(nil, s) {
		panic("simrt: a simulation is already active in this process")
	}
	defer cur.Store(nil)
	s.spawn("main", 0, main)
	s.loop()
	s.rep.Tasks = len(s.tasks)
	s.rep.TapeUsed = s.tapePos
	s.rep.TraceHash = s.hash
	s.rep.FakeDuration = time.Since(s.start)
	return &s.rep
}

//go:norace
func (s *Sim) spawn(name string, inc int, f func()) *Task {
	t := &Task{ID: len(s.tasks), Name: name, Inc: inc, st: stReady, wake: make(chan struct{}), sim: s, site: SiteStart}
	s.tasks = append(s.tasks, t)
	go s.taskMain(t, f)
	return t
}

//go:norace
func (s *Sim) taskMain(t *Task, f func()) {
	raceDisable()
	<-t.wake
	raceEnable()
	if s.dying.Load() {
		s.finish(t)
		return
	}
	defer s.finish(t)
	defer func() {
		if r := recover(); r != nil {
			s.mu.Lock()
			if msg := fmt.Sprint(r); strings.HasPrefix(msg, "simrt:") {
				// the simulator's own complaint (an operation it cannot model), not a panic of the code under test
				s.rep.HarnessError = msg + "\n" + string(debug.Stack())
			} else {
				s.rep.Panics = append(s.rep.Panics, PanicRec{Task: t.String(), Value: msg, Stack: string(debug.Stack())})
			}
			s.mu.Unlock()
		}
	}()
	f()
}

//go:norace
func (s *Sim) finish(t *Task) {
	raceRelease(t)
	s.mu.Lock()
	t.st = stDone
	for _, o := range s.tasks {
		if o.st == stBlocked && o.waitingOn == any(t) {
			o.st = stReady
		}
	}
	s.mu.Unlock()
}

//go:norace
func (s *Sim) loop() {
	raceDisable()
	defer raceEnable()
	for {
		synctest.Wait()
		s.mu.Lock()
		if s.current != nil && s.current.st == stRunning {
			// The released task is durably blocked somewhere the simulator does not know about. It may only
			// be waiting for simulated time (a back-off sleep inside a dependency): let up to a minute of
			// it pass, in small steps, before giving up.
			cur := s.current
			s.mu.Unlock()
			resumed := false
			for i := 0; i < 600 && !resumed; i++ {
				time.Sleep(100 * time.Millisecond)
				synctest.Wait()
				s.mu.Lock()
				resumed = cur.st != stRunning
				s.mu.Unlock()
			}
			if resumed {
				continue
			}
			s.mu.Lock()
			s.rep.RealBlock = allStacks()
			s.rep.HarnessError = "task " + cur.String() + " blocked in an un-annotated real blocking operation\n" + s.rep.RealBlock
			s.mu.Unlock()
			s.teardown()
			return
		}
		for s.killIx < len(s.cfg.Kills) && s.cfg.Kills[s.killIx].Step <= s.rep.Steps {
			s.dead[s.cfg.Kills[s.killIx].Inc] = true
			s.killIx++
		}
		var ready []*Task
		external, alive, dormant := 0, 0, 0
		for _, t := range s.tasks {
			switch t.st {
			case stReady:
				ready = append(ready, t)
			case stExternal:
				external++
			case stDormant:
				dormant++
			}
			if t.st != stDone && t.st != stDormant {
				alive++
			}
		}
		if alive == 0 {
			s.mu.Unlock()
			return
		}
		if s.rep.BudgetExceeded || s.rep.Steps >= s.cfg.MaxSteps {
			s.rep.BudgetExceeded = true
			s.mu.Unlock()
			s.teardown()
			return
		}
		if len(ready) == 0 {
			// a dormant callback may still fire when simulated time advances (a context deadline, a timer)
			if external == 0 && dormant == 0 {
				s.rep.Deadlock = true
				s.rep.DeadlockInfo = s.waitGraph()
				s.mu.Unlock()
				s.teardown()
				return
			}
			s.rep.ExternalWaits++
			s.mu.Unlock()
			tm := time.NewTimer(s.cfg.IdleLimit)
			select {
			case <-s.wakeCh:
				tm.Stop()
				continue
			case <-tm.C:
				s.mu.Lock()
				s.rep.Deadlock = true
				s.rep.DeadlockInfo = "no wake-up within the idle limit of simulated time\n" + s.waitGraph()
				s.mu.Unlock()
				s.teardown()
				return
			}
		}
		t := s.pickLocked(ready)
		s.release(t)
	}
}

// pickLocked chooses the next task. Candidates are ordered: the task that ran
// last (if ready) first, then the others by id; a tape value of 0 therefore
// means "no context switch".
//
//go:norace
func (s *Sim) pickLocked(ready []*Task) *Task {
	t := ready[0]
	if len(ready) > 1 {
		s.rep.Choices++
		cands := ready
		if s.last != nil && s.last.st == stReady && ready[0] != s.last {
			cands = make([]*Task, 0, len(ready))
			cands = append(cands, s.last)
			for _, r := range ready {
				if r != s.last {
					cands = append(cands, r)
				}
			}
		}
		var v uint32
		if s.tapePos < len(s.cfg.Tape) {
			v = s.cfg.Tape[s.tapePos]
		}
		s.tapePos++
		t = cands[int(v%uint32(len(cands)))]
		if s.last != nil && s.last.st == stReady && t != s.last {
			s.rep.Preemptions++
		}
	}
	s.noteStepLocked(t)
	return t
}

//go:norace
func (s *Sim) noteStepLocked(t *Task) {
	s.rep.Steps++
	e := uint32(t.ID)<<16 | uint32(t.site)
	s.hash = (s.hash ^ uint64(e)) * 1099511628211
	if s.cfg.KeepTrace {
		s.rep.Trace = append(s.rep.Trace, e)
	}
}

//go:norace
func (s *Sim) release(t *Task) {
	t.st = stRunning
	t.waitingOn = nil
	s.current = t
	s.last = t
	s.mu.Unlock()
	t.wake <- struct{}{}
}

// park blocks the calling task until the scheduler releases it again.
// The caller has already set t.st under s.mu and released s.mu.
//
//go:norace
func (s *Sim) park(t *Task) {
	raceDisable()
	<-t.wake
	raceEnable()
	if s.dying.Load() {
		runtime.Goexit()
	}
}

//go:norace
func (s *Sim) teardown() {
	s.dying.Store(true)
	for {
		synctest.Wait()
		s.mu.Lock()
		var next *Task
		for _, t := range s.tasks {
			if t.st == stReady || t.st == stBlocked {
				next = t
				break
			}
		}
		if next == nil {
			s.mu.Unlock()
			return // tasks in stExternal/stRunning (really blocked) cannot be unwound; the bubble will report them
		}
		next.st = stRunning
		s.mu.Unlock()
		next.wake <- struct{}{}
	}
}

//go:norace
func (s *Sim) waitGraph() string {
	var b strings.Builder
	for _, t := range s.tasks {
		if t.st == stDone {
			continue
		}
		fmt.Fprintf(&b, "  %s inc=%d state=%s at %s", t, t.Inc, t.st, t.site)
		if t.waitingOn != nil {
			fmt.Fprintf(&b, " waiting on %s", describe(t.waitingOn))
		}
		b.WriteByte('\n')
	}
	return b.String()
}

// Describer lets primitives describe themselves (and their owner) in deadlock reports.
type Describer interface{ SimDescribe() string }

//go:norace
func describe(x any) string {
	if d, ok := x.(Describer); ok {
		return d.SimDescribe()
	}
	if t, ok := x.(*Task); ok {
		return "termination of " + t.String()
	}
	return fmt.Sprintf("%T@%p", x, x)
}

//go:norace
func allStacks() string {
	buf := make([]byte, 1<<20)
	n := runtime.Stack(buf, true)
	return string(buf[:n])
}

// ---------------------------------------------------------------------------
// Entry points used by the shims, the instrumented code and the harness.

// Go starts f as a new task of the caller's incarnation (or as a plain goroutine
// when no simulation is active). The spawning task then reaches a decision point.
//
//go:norace
func Go(f func()) { GoNamed("go", f) }

//go:norace
func GoNamed(name string, f func()) *Task {
	s := cur.Load()
	if s == nil {
		go f()
		return nil
	}
	if s.dying.Load() {
		return nil
	}
	s.mu.Lock()
	inc := 0
	if s.current != nil {
		inc = s.current.Inc
	}
	t := s.spawn(name, inc, f)
	s.mu.Unlock()
	s.yield(SiteGo)
	return t
}

// Spawn is GoNamed with an explicit incarnation and without a decision point
// (used by the orchestrating harness task to start a process incarnation).
//
//go:norace
func Spawn(name string, inc int, f func()) *Task {
	s := cur.Load()
	if s == nil {
		panic("simrt.Spawn outside a simulation")
	}
	s.mu.Lock()
	t := s.spawn(name, inc, f)
	s.mu.Unlock()
	return t
}

// Yield is a decision point.
//
//go:norace
func Yield(site Site) {
	if s := cur.Load(); s != nil {
		s.yield(site)
	}
}

//go:norace
func (s *Sim) yield(site Site) {
	if s.dying.Load() {
		return
	}
	s.mu.Lock()
	t := s.current
	if t == nil || t.st != stRunning {
		s.mu.Unlock()
		panic("simrt: decision point reached by a goroutine that is not the running task (site " + site.String() + ")")
	}
	t.site = site
	// Fast path: nobody else can run and nobody can become runnable behind our back.
	others := false
	for _, o := range s.tasks {
		if o != t && (o.st == stReady || o.st == stExternal || o.st == stDormant) {
			others = true
			break
		}
	}
	if !others && s.rep.Steps < s.cfg.MaxSteps && (s.killIx >= len(s.cfg.Kills) || s.cfg.Kills[s.killIx].Step > s.rep.Steps) {
		s.noteStepLocked(t)
		s.mu.Unlock()
		return
	}
	t.st = stReady
	s.mu.Unlock()
	s.park(t)
}

// Settle is a decision point that always hands control to the scheduler, which waits
// (synctest.Wait) until every goroutine of the bubble - including helper goroutines of
// dependencies, e.g. database/sql's context watchers - is durably blocked before it
// releases a task again. Harness code calls it after an action whose asynchronous
// consequences must have happened before the run continues (cancelling a context).
//
//go:norace
func Settle() {
	s := cur.Load()
	if s == nil || s.dying.Load() {
		return
	}
	s.mu.Lock()
	t := s.current
	if t == nil || t.st != stRunning {
		s.mu.Unlock()
		panic("simrt: Settle by a goroutine that is not the running task")
	}
	t.site = SiteUser
	t.st = stReady
	s.mu.Unlock()
	s.park(t)
}

// BlockOn parks the running task until some task calls WakeAll(key).
//
//go:norace
func BlockOn(key any, site Site) {
	s := cur.Load()
	if s == nil || s.dying.Load() {
		return
	}
	s.mu.Lock()
	t := s.current
	if t == nil || t.st != stRunning {
		s.mu.Unlock()
		panic("simrt: BlockOn by a goroutine that is not the running task")
	}
	t.site = site
	t.st = stBlocked
	t.waitingOn = key
	s.mu.Unlock()
	s.park(t)
}

// WakeAll makes every task blocked on key ready again (they re-check their condition).
//
//go:norace
func WakeAll(key any) {
	s := cur.Load()
	if s == nil {
		return
	}
	s.mu.Lock()
	for _, o := range s.tasks {
		if o.st == stBlocked && o.waitingOn == key {
			o.st = stReady
		}
	}
	s.mu.Unlock()
}

// WakeOne makes the lowest-id... no: the first task (in blocking order is not tracked) blocked on key ready.
// It is used by Cond.Signal with an explicit task.
//
//go:norace
func WakeTask(t *Task) {
	s := cur.Load()
	if s == nil {
		return
	}
	s.mu.Lock()
	if t.st == stBlocked {
		t.st = stReady
	}
	s.mu.Unlock()
}

// Join blocks until t has finished.
//
//go:norace
func Join(ts ...*Task) {
	s := cur.Load()
	if s == nil {
		return
	}
	for _, t := range ts {
		if t == nil {
			continue
		}
		for {
			s.mu.Lock()
			done := t.st == stDone
			s.mu.Unlock()
			if done || s.dying.Load() {
				if done {
					raceAcquire(t)
				}
				break
			}
			BlockOn(t, SiteJoin)
		}
	}
}

// Tok is handed from BeforeBlock to AfterBlock.
type Tok struct{ t *Task }

// BeforeBlock announces that the running task is about to perform a real
// (channel / timer / select) operation that may block.
//
//go:norace
func BeforeBlock() Tok {
	s := cur.Load()
	if s == nil || s.dying.Load() {
		return Tok{}
	}
	s.yield(SiteBlockWake)
	s.mu.Lock()
	t := s.current
	t.st = stExternal
	s.mu.Unlock()
	return Tok{t}
}

// AfterBlock must be the first thing executed after the operation returned.
//
//go:norace
func AfterBlock(k Tok) {
	if k.t == nil {
		return
	}
	s := k.t.sim
	if s.dying.Load() {
		return
	}
	s.mu.Lock()
	k.t.st = stReady
	k.t.site = SiteBlockWake
	s.mu.Unlock()
	raceDisable()
	select {
	case s.wakeCh <- struct{}{}:
	default:
	}
	raceEnable()
	s.park(k.t)
}

// ---------------------------------------------------------------------------
// Callbacks that the Go runtime runs on goroutines of its own (context.AfterFunc,
// time.AfterFunc). The instrumenter routes both through here: the callback is
// pre-registered as a dormant task (its id is fixed at registration, so runs stay
// repeatable); when the runtime fires it, the new goroutine becomes a ready task and
// parks until the scheduler releases it. While a dormant callback exists every
// decision point hands over to the scheduler, whose synctest.Wait lets a callback that
// has just been fired reach its parking place before the next choice is made.

//go:norace
func (s *Sim) newDormant(name string) *Task {
	s.mu.Lock()
	defer s.mu.Unlock()
	inc := 0
	if s.current != nil {
		inc = s.current.Inc
	}
	t := &Task{ID: len(s.tasks), Name: name, Inc: inc, st: stDormant, wake: make(chan struct{}), sim: s, site: SiteStart}
	s.tasks = append(s.tasks, t)
	return t
}

//go:norace
func (s *Sim) runForeign(t *Task, f func()) {
	if cur.Load() != s || s.dying.Load() {
		return // the run is over (or being torn down): the callback is dropped with it
	}
	s.mu.Lock()
	if t.st != stDormant {
		s.mu.Unlock()
		return
	}
	t.st = stReady
	s.mu.Unlock()
	select {
	case s.wakeCh <- struct{}{}:
	default:
	}
	s.taskMain(t, f)
}

//go:norace
func (s *Sim) disarm(t *Task) {
	s.mu.Lock()
	if t.st == stDormant {
		t.st = stDone
	}
	s.mu.Unlock()
}

// ContextAfterFunc is context.AfterFunc with the callback run as a task.
//
//go:norace
func ContextAfterFunc(ctx context.Context, f func()) (stop func() bool) {
	s := cur.Load()
	if s == nil || s.dying.Load() {
		return context.AfterFunc(ctx, f)
	}
	t := s.newDormant("context.AfterFunc")
	realStop := context.AfterFunc(ctx, func() { s.runForeign(t, f) })
	return func() bool {
		ok := realStop()
		if ok {
			s.disarm(t)
		}
		return ok
	}
}

// TimeAfterFunc is time.AfterFunc with the callback run as a task. (A Stop or Reset of the returned
// timer is not observed: a stopped callback stays dormant, which only costs the fast path.)
//
//go:norace
func TimeAfterFunc(d time.Duration, f func()) *time.Timer {
	s := cur.Load()
	if s == nil || s.dying.Load() {
		return time.AfterFunc(d, f)
	}
	t := s.newDormant("time.AfterFunc")
	return time.AfterFunc(d, func() { s.runForeign(t, f) })
}

// Sleep sleeps in simulated time.
//
//go:norace
func Sleep(d time.Duration) {
	if cur.Load() == nil {
		time.Sleep(d)
		return
	}
	k := BeforeBlock()
	time.Sleep(d)
	AfterBlock(k)
}

// Select is the deterministic replacement for a blocking, receive-only select
// whose cases bind no value: it returns the index of the case that fired.
// Ready cases are polled in an order taken from the choice tape, so both outcomes
// of a both-ready select are reachable and replayable.
//
//go:norace
func Select(chans ...any) int {
	cases := make([]reflect.SelectCase, len(chans), len(chans)+1)
	for i, c := range chans {
		cases[i] = reflect.SelectCase{Dir: reflect.SelectRecv, Chan: reflect.ValueOf(c)}
	}
	s := cur.Load()
	if s == nil || s.dying.Load() {
		i, _, _ := reflect.Select(cases)
		return i
	}
	s.yield(SiteSelect)
	// tape-ordered non-blocking poll
	start := 0
	if len(chans) > 1 {
		s.mu.Lock()
		var v uint32
		if s.tapePos < len(s.cfg.Tape) {
			v = s.cfg.Tape[s.tapePos]
		}
		s.tapePos++
		s.mu.Unlock()
		start = int(v % uint32(len(chans)))
	}
	for k := 0; k < len(chans); k++ {
		i := (start + k) % len(chans)
		two := []reflect.SelectCase{cases[i], {Dir: reflect.SelectDefault}}
		if j, _, _ := reflect.Select(two); j == 0 {
			return i
		}
	}
	s.mu.Lock()
	t := s.current
	t.st = stExternal
	s.mu.Unlock()
	i, _, _ := reflect.Select(cases)
	AfterBlock(Tok{t})
	return i
}

// Stamp returns a fresh, strictly increasing sequence number for history records.
//
//go:norace
func Stamp() int64 {
	s := cur.Load()
	if s == nil {
		return 0
	}
	s.mu.Lock()
	s.stamp++
	v := s.stamp
	s.mu.Unlock()
	return v
}

// Current returns the running task (nil outside a simulation).
//
//go:norace
func Current() *Task {
	s := cur.Load()
	if s == nil {
		return nil
	}
	s.mu.Lock()
	defer s.mu.Unlock()
	return s.current
}

// SetIncarnation moves the running task to incarnation inc.
//
//go:norace
func SetIncarnation(inc int) {
	if t := Current(); t != nil {
		t.sim.mu.Lock()
		t.Inc = inc
		t.sim.mu.Unlock()
	}
}

// Dead reports whether the running task belongs to a killed incarnation.
//
//go:norace
func Dead() bool {
	s := cur.Load()
	if s == nil {
		return false
	}
	s.mu.Lock()
	defer s.mu.Unlock()
	return s.current != nil && s.dead[s.current.Inc]
}

// IncDead reports whether incarnation inc has been killed.
//
//go:norace
func IncDead(inc int) bool {
	s := cur.Load()
	if s == nil {
		return false
	}
	s.mu.Lock()
	defer s.mu.Unlock()
	return s.dead[inc]
}

// KillNow kills incarnation inc immediately.
//
//go:norace
func KillNow(inc int) {
	if s := cur.Load(); s != nil {
		s.mu.Lock()
		s.dead[inc] = true
		s.mu.Unlock()
	}
}

// Steps returns the number of scheduler steps so far.
//
//go:norace
func Steps() int {
	s := cur.Load()
	if s == nil {
		return 0
	}
	s.mu.Lock()
	defer s.mu.Unlock()
	return s.rep.Steps
}

// Misuse records a misuse of a synchronisation primitive that real Go would
// turn into a fatal error (unlock of an unlocked mutex, negative WaitGroup...).
//
//go:norace
func Misuse(msg string) {
	if s := cur.Load(); s != nil {
		s.mu.Lock()
		s.rep.SyncMisuse = append(s.rep.SyncMisuse, msg)
		s.mu.Unlock()
	}
}
