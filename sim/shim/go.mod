module simshim

go 1.25
