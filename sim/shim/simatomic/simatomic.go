// Package simatomic is a drop-in replacement for sync/atomic in which every
// operation is preceded by a scheduler decision point when a simulation is active.
package simatomic

import (
	"sync/atomic"
	"unsafe"

	"simshim/simrt"
)

func y() { simrt.Yield(simrt.SiteAtomic) }

func AddInt32(p *int32, d int32) int32         { y(); return atomic.AddInt32(p, d) }
func AddInt64(p *int64, d int64) int64         { y(); return atomic.AddInt64(p, d) }
func AddUint32(p *uint32, d uint32) uint32     { y(); return atomic.AddUint32(p, d) }
func AddUint64(p *uint64, d uint64) uint64     { y(); return atomic.AddUint64(p, d) }
func AddUintptr(p *uintptr, d uintptr) uintptr { y(); return atomic.AddUintptr(p, d) }
func AndInt32(p *int32, m int32) int32         { y(); return atomic.AndInt32(p, m) }
func AndUint32(p *uint32, m uint32) uint32     { y(); return atomic.AndUint32(p, m) }
func OrInt32(p *int32, m int32) int32          { y(); return atomic.OrInt32(p, m) }
func OrUint32(p *uint32, m uint32) uint32      { y(); return atomic.OrUint32(p, m) }

func LoadInt32(p *int32) int32                     { y(); return atomic.LoadInt32(p) }
func LoadInt64(p *int64) int64                     { y(); return atomic.LoadInt64(p) }
func LoadUint32(p *uint32) uint32                  { y(); return atomic.LoadUint32(p) }
func LoadUint64(p *uint64) uint64                  { y(); return atomic.LoadUint64(p) }
func LoadUintptr(p *uintptr) uintptr               { y(); return atomic.LoadUintptr(p) }
func LoadPointer(p *unsafe.Pointer) unsafe.Pointer { y(); return atomic.LoadPointer(p) }

func StoreInt32(p *int32, v int32)                     { y(); atomic.StoreInt32(p, v) }
func StoreInt64(p *int64, v int64)                     { y(); atomic.StoreInt64(p, v) }
func StoreUint32(p *uint32, v uint32)                  { y(); atomic.StoreUint32(p, v) }
func StoreUint64(p *uint64, v uint64)                  { y(); atomic.StoreUint64(p, v) }
func StoreUintptr(p *uintptr, v uintptr)               { y(); atomic.StoreUintptr(p, v) }
func StorePointer(p *unsafe.Pointer, v unsafe.Pointer) { y(); atomic.StorePointer(p, v) }

func SwapInt32(p *int32, v int32) int32         { y(); return atomic.SwapInt32(p, v) }
func SwapInt64(p *int64, v int64) int64         { y(); return atomic.SwapInt64(p, v) }
func SwapUint32(p *uint32, v uint32) uint32     { y(); return atomic.SwapUint32(p, v) }
func SwapUint64(p *uint64, v uint64) uint64     { y(); return atomic.SwapUint64(p, v) }
func SwapUintptr(p *uintptr, v uintptr) uintptr { y(); return atomic.SwapUintptr(p, v) }
func SwapPointer(p *unsafe.Pointer, v unsafe.Pointer) unsafe.Pointer {
	y()
	return atomic.SwapPointer(p, v)
}

func CompareAndSwapInt32(p *int32, o, n int32) bool { y(); return atomic.CompareAndSwapInt32(p, o, n) }
func CompareAndSwapInt64(p *int64, o, n int64) bool { y(); return atomic.CompareAndSwapInt64(p, o, n) }
func CompareAndSwapUint32(p *uint32, o, n uint32) bool {
	y()
	return atomic.CompareAndSwapUint32(p, o, n)
}
func CompareAndSwapUint64(p *uint64, o, n uint64) bool {
	y()
	return atomic.CompareAndSwapUint64(p, o, n)
}
func CompareAndSwapUintptr(p *uintptr, o, n uintptr) bool {
	y()
	return atomic.CompareAndSwapUintptr(p, o, n)
}
func CompareAndSwapPointer(p *unsafe.Pointer, o, n unsafe.Pointer) bool {
	y()
	return atomic.CompareAndSwapPointer(p, o, n)
}

type Int32 struct{ v atomic.Int32 }

func (x *Int32) Load() int32                    { y(); return x.v.Load() }
func (x *Int32) Store(v int32)                  { y(); x.v.Store(v) }
func (x *Int32) Swap(v int32) int32             { y(); return x.v.Swap(v) }
func (x *Int32) Add(d int32) int32              { y(); return x.v.Add(d) }
func (x *Int32) And(m int32) int32              { y(); return x.v.And(m) }
func (x *Int32) Or(m int32) int32               { y(); return x.v.Or(m) }
func (x *Int32) CompareAndSwap(o, n int32) bool { y(); return x.v.CompareAndSwap(o, n) }

type Int64 struct{ v atomic.Int64 }

func (x *Int64) Load() int64                    { y(); return x.v.Load() }
func (x *Int64) Store(v int64)                  { y(); x.v.Store(v) }
func (x *Int64) Swap(v int64) int64             { y(); return x.v.Swap(v) }
func (x *Int64) Add(d int64) int64              { y(); return x.v.Add(d) }
func (x *Int64) And(m int64) int64              { y(); return x.v.And(m) }
func (x *Int64) Or(m int64) int64               { y(); return x.v.Or(m) }
func (x *Int64) CompareAndSwap(o, n int64) bool { y(); return x.v.CompareAndSwap(o, n) }

type Uint32 struct{ v atomic.Uint32 }

func (x *Uint32) Load() uint32                    { y(); return x.v.Load() }
func (x *Uint32) Store(v uint32)                  { y(); x.v.Store(v) }
func (x *Uint32) Swap(v uint32) uint32            { y(); return x.v.Swap(v) }
func (x *Uint32) Add(d uint32) uint32             { y(); return x.v.Add(d) }
func (x *Uint32) And(m uint32) uint32             { y(); return x.v.And(m) }
func (x *Uint32) Or(m uint32) uint32              { y(); return x.v.Or(m) }
func (x *Uint32) CompareAndSwap(o, n uint32) bool { y(); return x.v.CompareAndSwap(o, n) }

type Uint64 struct{ v atomic.Uint64 }

func (x *Uint64) Load() uint64                    { y(); return x.v.Load() }
func (x *Uint64) Store(v uint64)                  { y(); x.v.Store(v) }
func (x *Uint64) Swap(v uint64) uint64            { y(); return x.v.Swap(v) }
func (x *Uint64) Add(d uint64) uint64             { y(); return x.v.Add(d) }
func (x *Uint64) And(m uint64) uint64             { y(); return x.v.And(m) }
func (x *Uint64) Or(m uint64) uint64              { y(); return x.v.Or(m) }
func (x *Uint64) CompareAndSwap(o, n uint64) bool { y(); return x.v.CompareAndSwap(o, n) }

type Uintptr struct{ v atomic.Uintptr }

func (x *Uintptr) Load() uintptr                    { y(); return x.v.Load() }
func (x *Uintptr) Store(v uintptr)                  { y(); x.v.Store(v) }
func (x *Uintptr) Swap(v uintptr) uintptr           { y(); return x.v.Swap(v) }
func (x *Uintptr) Add(d uintptr) uintptr            { y(); return x.v.Add(d) }
func (x *Uintptr) CompareAndSwap(o, n uintptr) bool { y(); return x.v.CompareAndSwap(o, n) }

type Bool struct{ v atomic.Bool }

func (x *Bool) Load() bool                    { y(); return x.v.Load() }
func (x *Bool) Store(v bool)                  { y(); x.v.Store(v) }
func (x *Bool) Swap(v bool) bool              { y(); return x.v.Swap(v) }
func (x *Bool) CompareAndSwap(o, n bool) bool { y(); return x.v.CompareAndSwap(o, n) }

type Pointer[T any] struct{ v atomic.Pointer[T] }

func (x *Pointer[T]) Load() *T                    { y(); return x.v.Load() }
func (x *Pointer[T]) Store(v *T)                  { y(); x.v.Store(v) }
func (x *Pointer[T]) Swap(v *T) *T                { y(); return x.v.Swap(v) }
func (x *Pointer[T]) CompareAndSwap(o, n *T) bool { y(); return x.v.CompareAndSwap(o, n) }

type Value struct{ v atomic.Value }

func (x *Value) Load() any                    { y(); return x.v.Load() }
func (x *Value) Store(v any)                  { y(); x.v.Store(v) }
func (x *Value) Swap(v any) any               { y(); return x.v.Swap(v) }
func (x *Value) CompareAndSwap(o, n any) bool { y(); return x.v.CompareAndSwap(o, n) }
