// Package simatomic is a drop-in replacement for sync/atomic in which every
// operation is preceded by a scheduler decision point when a simulation is active.
package simatomic

import (
	"sync/atomic"
	"unsafe"

	"simshim/simrt"
)

//go:norace
func y() { simrt.Yield(simrt.SiteAtomic) }

//go:norace
func AddInt32(p *int32, d int32) int32 { y(); return atomic.AddInt32(p, d) }

//go:norace
func AddInt64(p *int64, d int64) int64 { y(); return atomic.AddInt64(p, d) }

//go:norace
func AddUint32(p *uint32, d uint32) uint32 { y(); return atomic.AddUint32(p, d) }

//go:norace
func AddUint64(p *uint64, d uint64) uint64 { y(); return atomic.AddUint64(p, d) }

//go:norace
func AddUintptr(p *uintptr, d uintptr) uintptr { y(); return atomic.AddUintptr(p, d) }

//go:norace
func AndInt32(p *int32, m int32) int32 { y(); return atomic.AndInt32(p, m) }

//go:norace
func AndUint32(p *uint32, m uint32) uint32 { y(); return atomic.AndUint32(p, m) }

//go:norace
func OrInt32(p *int32, m int32) int32 { y(); return atomic.OrInt32(p, m) }

//go:norace
func OrUint32(p *uint32, m uint32) uint32 { y(); return atomic.OrUint32(p, m) }

//go:norace
func LoadInt32(p *int32) int32 { y(); return atomic.LoadInt32(p) }

//go:norace
func LoadInt64(p *int64) int64 { y(); return atomic.LoadInt64(p) }

//go:norace
func LoadUint32(p *uint32) uint32 { y(); return atomic.LoadUint32(p) }

//go:norace
func LoadUint64(p *uint64) uint64 { y(); return atomic.LoadUint64(p) }

//go:norace
func LoadUintptr(p *uintptr) uintptr { y(); return atomic.LoadUintptr(p) }

//go:norace
func LoadPointer(p *unsafe.Pointer) unsafe.Pointer { y(); return atomic.LoadPointer(p) }

//go:norace
func StoreInt32(p *int32, v int32) { y(); atomic.StoreInt32(p, v) }

//go:norace
func StoreInt64(p *int64, v int64) { y(); atomic.StoreInt64(p, v) }

//go:norace
func StoreUint32(p *uint32, v uint32) { y(); atomic.StoreUint32(p, v) }

//go:norace
func StoreUint64(p *uint64, v uint64) { y(); atomic.StoreUint64(p, v) }

//go:norace
func StoreUintptr(p *uintptr, v uintptr) { y(); atomic.StoreUintptr(p, v) }

//go:norace
func StorePointer(p *unsafe.Pointer, v unsafe.Pointer) { y(); atomic.StorePointer(p, v) }

//go:norace
func SwapInt32(p *int32, v int32) int32 { y(); return atomic.SwapInt32(p, v) }

//go:norace
func SwapInt64(p *int64, v int64) int64 { y(); return atomic.SwapInt64(p, v) }

//go:norace
func SwapUint32(p *uint32, v uint32) uint32 { y(); return atomic.SwapUint32(p, v) }

//go:norace
func SwapUint64(p *uint64, v uint64) uint64 { y(); return atomic.SwapUint64(p, v) }

//go:norace
func SwapUintptr(p *uintptr, v uintptr) uintptr { y(); return atomic.SwapUintptr(p, v) }

//go:norace
func SwapPointer(p *unsafe.Pointer, v unsafe.Pointer) unsafe.Pointer {
	y()
	return atomic.SwapPointer(p, v)
}

//go:norace
func CompareAndSwapInt32(p *int32, o, n int32) bool { y(); return atomic.CompareAndSwapInt32(p, o, n) }

//go:norace
func CompareAndSwapInt64(p *int64, o, n int64) bool { y(); return atomic.CompareAndSwapInt64(p, o, n) }

//go:norace
func CompareAndSwapUint32(p *uint32, o, n uint32) bool {
	y()
	return atomic.CompareAndSwapUint32(p, o, n)
}

//go:norace
func CompareAndSwapUint64(p *uint64, o, n uint64) bool {
	y()
	return atomic.CompareAndSwapUint64(p, o, n)
}

//go:norace
func CompareAndSwapUintptr(p *uintptr, o, n uintptr) bool {
	y()
	return atomic.CompareAndSwapUintptr(p, o, n)
}

//go:norace
func CompareAndSwapPointer(p *unsafe.Pointer, o, n unsafe.Pointer) bool {
	y()
	return atomic.CompareAndSwapPointer(p, o, n)
}

type Int32 struct{ v atomic.Int32 }

//go:norace
func (x *Int32) Load() int32 { y(); return x.v.Load() }

//go:norace
func (x *Int32) Store(v int32) { y(); x.v.Store(v) }

//go:norace
func (x *Int32) Swap(v int32) int32 { y(); return x.v.Swap(v) }

//go:norace
func (x *Int32) Add(d int32) int32 { y(); return x.v.Add(d) }

//go:norace
func (x *Int32) And(m int32) int32 { y(); return x.v.And(m) }

//go:norace
func (x *Int32) Or(m int32) int32 { y(); return x.v.Or(m) }

//go:norace
func (x *Int32) CompareAndSwap(o, n int32) bool { y(); return x.v.CompareAndSwap(o, n) }

type Int64 struct{ v atomic.Int64 }

//go:norace
func (x *Int64) Load() int64 { y(); return x.v.Load() }

//go:norace
func (x *Int64) Store(v int64) { y(); x.v.Store(v) }

//go:norace
func (x *Int64) Swap(v int64) int64 { y(); return x.v.Swap(v) }

//go:norace
func (x *Int64) Add(d int64) int64 { y(); return x.v.Add(d) }

//go:norace
func (x *Int64) And(m int64) int64 { y(); return x.v.And(m) }

//go:norace
func (x *Int64) Or(m int64) int64 { y(); return x.v.Or(m) }

//go:norace
func (x *Int64) CompareAndSwap(o, n int64) bool { y(); return x.v.CompareAndSwap(o, n) }

type Uint32 struct{ v atomic.Uint32 }

//go:norace
func (x *Uint32) Load() uint32 { y(); return x.v.Load() }

//go:norace
func (x *Uint32) Store(v uint32) { y(); x.v.Store(v) }

//go:norace
func (x *Uint32) Swap(v uint32) uint32 { y(); return x.v.Swap(v) }

//go:norace
func (x *Uint32) Add(d uint32) uint32 { y(); return x.v.Add(d) }

//go:norace
func (x *Uint32) And(m uint32) uint32 { y(); return x.v.And(m) }

//go:norace
func (x *Uint32) Or(m uint32) uint32 { y(); return x.v.Or(m) }

//go:norace
func (x *Uint32) CompareAndSwap(o, n uint32) bool { y(); return x.v.CompareAndSwap(o, n) }

type Uint64 struct{ v atomic.Uint64 }

//go:norace
func (x *Uint64) Load() uint64 { y(); return x.v.Load() }

//go:norace
func (x *Uint64) Store(v uint64) { y(); x.v.Store(v) }

//go:norace
func (x *Uint64) Swap(v uint64) uint64 { y(); return x.v.Swap(v) }

//go:norace
func (x *Uint64) Add(d uint64) uint64 { y(); return x.v.Add(d) }

//go:norace
func (x *Uint64) And(m uint64) uint64 { y(); return x.v.And(m) }

//go:norace
func (x *Uint64) Or(m uint64) uint64 { y(); return x.v.Or(m) }

//go:norace
func (x *Uint64) CompareAndSwap(o, n uint64) bool { y(); return x.v.CompareAndSwap(o, n) }

type Uintptr struct{ v atomic.Uintptr }

//go:norace
func (x *Uintptr) Load() uintptr { y(); return x.v.Load() }

//go:norace
func (x *Uintptr) Store(v uintptr) { y(); x.v.Store(v) }

//go:norace
func (x *Uintptr) Swap(v uintptr) uintptr { y(); return x.v.Swap(v) }

//go:norace
func (x *Uintptr) Add(d uintptr) uintptr { y(); return x.v.Add(d) }

//go:norace
func (x *Uintptr) CompareAndSwap(o, n uintptr) bool { y(); return x.v.CompareAndSwap(o, n) }

type Bool struct{ v atomic.Bool }

//go:norace
func (x *Bool) Load() bool { y(); return x.v.Load() }

//go:norace
func (x *Bool) Store(v bool) { y(); x.v.Store(v) }

//go:norace
func (x *Bool) Swap(v bool) bool { y(); return x.v.Swap(v) }

//go:norace
func (x *Bool) CompareAndSwap(o, n bool) bool { y(); return x.v.CompareAndSwap(o, n) }

type Pointer[T any] struct{ v atomic.Pointer[T] }

//go:norace
func (x *Pointer[T]) Load() *T { y(); return x.v.Load() }

//go:norace
func (x *Pointer[T]) Store(v *T) { y(); x.v.Store(v) }

//go:norace
func (x *Pointer[T]) Swap(v *T) *T { y(); return x.v.Swap(v) }

//go:norace
func (x *Pointer[T]) CompareAndSwap(o, n *T) bool { y(); return x.v.CompareAndSwap(o, n) }

type Value struct{ v atomic.Value }

//go:norace
func (x *Value) Load() any { y(); return x.v.Load() }

//go:norace
func (x *Value) Store(v any) { y(); x.v.Store(v) }

//go:norace
func (x *Value) Swap(v any) any { y(); return x.v.Swap(v) }

//go:norace
func (x *Value) CompareAndSwap(o, n any) bool { y(); return x.v.CompareAndSwap(o, n) }
