"""Race companion: the interleaving verdict of a concurrency property is sound only if the code, under that
property's own workload, is free of data races (the scheduler switches tasks at synchronisation operations;
two conflicting plain accesses inside one decision-point-free region are never torn by it). So the same
seeded scenarios are also run in a -race build, where the simulator's hand-offs are invisible to the Go race
detector and the shims supply exactly the happens-before edges of the real sync primitives. The harness's
own bookkeeping is shared between tasks without such edges, so the detector reports it too: a report is kept
only if BOTH racing accesses are in jilio/ebu code (first frame that is neither runtime nor shim)."""
import hashlib, json, os, re, subprocess, sys


def first_code_frame(block):
    """First frame of one access stack that is neither Go runtime nor simulator shim."""
    lines = [l.strip() for l in block.splitlines()]
    for l in lines[1:]:
        if not l or l.startswith("/") or "+0x" in l and not l.endswith(")"):
            continue
        if "(" not in l:
            continue
        if l.startswith(("runtime.", "simshim/", "sync.", "sync/atomic.", "internal/")):
            continue
        return l
    return ""


def parse_reports(log):
    """Yield (case_no, signature, text) for every race report whose two accesses are both in ebu code."""
    case = 0
    pos = 0
    out = []
    for m in re.finditer(r"@@case (\d+)|WARNING: DATA RACE", log):
        if m.group(1):
            case = int(m.group(1))
            continue
        end = log.find("==================", m.start())
        text = log[m.start(): end if end > 0 else m.start() + 8000]
        parts = re.split(r"\n\n", text)
        acc = [p for p in parts if re.match(r"\s*(WARNING: DATA RACE\n)?\s*(Previous )?([Rr]ead|[Ww]rite|[Aa]tomic)", p)]
        if len(acc) < 2:
            continue
        frames = [first_code_frame(a) for a in acc[:2]]
        if all(f.startswith("github.com/jilio/ebu") for f in frames):
            names = sorted(f[:-2].rsplit("/", 1)[-1] if f.endswith("()") else f.rsplit("/", 1)[-1] for f in frames)
            out.append((case, "race:" + "|".join(names), text[:6000]))
    return out


def run(chk, pid, tier, seed, meta):
    """Returns (violations [(sig, replay_path, text)], harness_error, stats, runs)."""
    rc = meta.get("race_companion")
    if not rc:
        return [], False, [], 0
    t = dict(meta["tiers"][tier])
    checks = rc[tier]
    with chk.Scratch(race=True) as sc:
        binp = sc.build()
        nw = min(t.get("workers", chk.NCPU), chk.NCPU)
        procs = []
        for i in range(nw):
            ring = os.path.join(sc.dir, "ring_%d" % i)
            env = dict(chk.ENV, VERIF_SEED=str(seed * 100 + 50 + i), VERIF_CHECKS=str(checks), VERIF_CHUNK=str(t.get("chunk", 100)),
                       VERIF_BUDGET_MS=str(int(t["budget_s"] * 1000)), VERIF_OUT=os.path.join(sc.dir, "rstats_%d.json" % i),
                       VERIF_KNOWN=chk.known_path(), VERIF_REPLAY_DIR=os.path.join(sc.dir, "rreplays"), VERIF_TIER=tier,
                       VERIF_WORKER=str(i), VERIF_WORKERS=str(nw), VERIF_RACE_RING=ring, TMPDIR=sc.dir,
                       GORACE="halt_on_error=0 exitcode=0 history_size=2")
            logp = os.path.join(sc.dir, "rlog_%d.txt" % i)
            logf = open(logp, "w")
            procs.append((subprocess.Popen(chk.worker_cmd(binp, pid), env=env, stdout=logf, stderr=subprocess.STDOUT, cwd=sc.dir), logf, i, ring, logp))
        viol, herr, stats = [], False, []
        for p, logf, i, ring, logp in procs:
            try:
                code = p.wait(timeout=t["budget_s"] * 4 + 300)
            except subprocess.TimeoutExpired:
                p.kill()
                code = 2
            logf.close()
            log = open(logp, errors="replace").read()
            for case, sig, text in parse_reports(log):
                rf = "%s.keep.%d" % (ring, case)
                scen = json.load(open(rf)) if os.path.exists(rf) else None
                h = hashlib.sha1(json.dumps(scen, sort_keys=True).encode()).hexdigest()[:8]
                os.makedirs(os.path.join(chk.VERIF, "replays"), exist_ok=True)
                rp = os.path.join(chk.VERIF, "replays", "%s-race-%d-%s.json" % (pid, seed * 100 + 50 + i, h))
                json.dump({"property": pid, "engine": "race-companion", "seed": seed * 100 + 50 + i, "scenario": scen,
                           "violations": [{"kind": "data-race", "sig": sig, "msg": text}], "log_hash": "", "trace_hash": "",
                           "note": "Go race detector report (both accesses in jilio/ebu code) under this property's workload; re-run with ./check replay <this file>"},
                          open(rp, "w"), indent=1)
                viol.append((sig, rp, text))
                break
            if code not in (0, 1) or (code == 1 and "VIOLATION property=" not in log and "DATA RACE" not in log):
                herr = True
                print("check: race-companion worker %d exited %d:\n%s" % (i, code, log[-3000:]), file=sys.stderr)
            sp = os.path.join(sc.dir, "rstats_%d.json" % i)
            if os.path.exists(sp):
                stats.append(json.load(open(sp)))
        return viol, herr, stats, sum(s["evaluations"] for s in stats)


def replay(chk, path, rf):
    pid = rf["property"]
    with chk.Scratch(race=True) as sc:
        binp = sc.build()
        rp = os.path.join(sc.dir, "replay.json")
        json.dump(rf, open(rp, "w"))
        env = dict(chk.ENV, VERIF_REPLAY=rp, VERIF_KNOWN=chk.known_path(), TMPDIR=sc.dir, VERIF_RACE_RING=os.path.join(sc.dir, "ring"),
                   GORACE="halt_on_error=0 exitcode=0 history_size=2")
        r = subprocess.run(chk.worker_cmd(binp, pid), env=env, cwd=sc.dir, capture_output=True, text=True, errors="replace")
        reps = parse_reports(r.stdout + r.stderr)
        if reps:
            case, sig, text = reps[0]
            print("VIOLATION property=%s replay=%s\n  data race reproduced, signature=%s\n%s" % (pid, path, sig, text[:3000]))
            return 1
        print("REPLAY-OK property=%s: no data race between two accesses in jilio/ebu code occurs for this scenario on this tree" % pid)
        return 0
