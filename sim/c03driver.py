"""C03: the same scenarios run through two engines - the scheduler's deadlock verdict
(normal build) and the Go race detector under the serialised schedule (-race build)."""
import json, os, subprocess, sys, time, hashlib


def run_engine(chk, race, pid, tier, seed, meta, label):
    with chk.Scratch(race=race) as sc:
        binp = sc.build()
        extra = {"GORACE": "halt_on_error=1 exitcode=66"}
        t = meta["tiers"][tier]
        nw = min(t.get("workers", chk.NCPU), chk.NCPU)
        procs = []
        for i in range(nw):
            cur = os.path.join(sc.dir, "%s_current_%d.json" % (label, i))
            env = dict(chk.ENV, VERIF_SEED=str(seed * 100 + i + (50 if race else 0)), VERIF_CHECKS=str(t["checks"] // (4 if race else 1)),
                       VERIF_CHUNK=str(t.get("chunk", 100)), VERIF_BUDGET_MS=str(int(t["budget_s"] * 1000)),
                       VERIF_OUT=os.path.join(sc.dir, "%s_stats_%d.json" % (label, i)), VERIF_KNOWN=chk.known_path(),
                       VERIF_REPLAY_DIR=os.path.join(chk.VERIF, "replays"), VERIF_CURRENT=cur, TMPDIR=sc.dir, **extra)
            logp = os.path.join(sc.dir, "%s_log_%d.txt" % (label, i))
            logf = open(logp, "w")
            procs.append((subprocess.Popen(chk.worker_cmd(binp, pid), env=env, stdout=logf, stderr=subprocess.STDOUT, cwd=sc.dir), logf, i, cur, logp))
        viol, herr, stats = [], False, []
        for p, logf, i, cur, logp in procs:
            try:
                code = p.wait(timeout=t["budget_s"] * 4 + 300)
            except subprocess.TimeoutExpired:
                p.kill()
                code = 2
            logf.close()
            log = open(logp).read()
            if code == 66 or "WARNING: DATA RACE" in log:
                # the race detector stopped the process: keep the scenario as the replay file
                scen = json.load(open(cur)) if os.path.exists(cur) else None
                report = log[log.find("WARNING: DATA RACE"):][:6000]
                h = hashlib.sha1(json.dumps(scen, sort_keys=True).encode()).hexdigest()[:8]
                os.makedirs(os.path.join(chk.VERIF, "replays"), exist_ok=True)
                rp = os.path.join(chk.VERIF, "replays", "C03-race-%d-%s.json" % (seed * 100 + i, h))
                sig = race_signature(report)
                json.dump({"property": "C03", "engine": "race", "seed": seed * 100 + i, "scenario": scen,
                           "violations": [{"kind": "data-race", "sig": sig, "msg": report}], "log_hash": "", "trace_hash": "",
                           "note": "Go race detector report under the serialised schedule; re-run with ./check replay <this file>"}, open(rp, "w"), indent=1)
                viol.append((sig, rp, report))
            elif code == 1 and "VIOLATION property=" in log:
                viol.append(("", None, log[log.index("VIOLATION property="):].strip()))
            elif code != 0:
                herr = True
                print("check: %s worker %d exited %d:\n%s" % (label, i, code, log[-5000:]), file=sys.stderr)
            sp = os.path.join(sc.dir, "%s_stats_%d.json" % (label, i))
            if os.path.exists(sp):
                stats.append(json.load(open(sp)))
        return viol, herr, stats, sc.build_s


def race_signature(report):
    """A stable signature of a race report: the two top ebu frames (function names) of the racing accesses."""
    funcs = []
    for block in report.split("\n\n")[:2]:
        for line in block.splitlines():
            line = line.strip()
            if line.startswith("github.com/jilio/ebu") or line.startswith("simshim/simsync"):
                name = line[:-2] if line.endswith("()") else line
                funcs.append(name.rsplit("/", 1)[-1])
                break
    return "race:" + "|".join(sorted(funcs))


def main(pid, tier, chk):
    meta = chk.PROPS[pid]
    seed = int(os.environ.get("VERIF_SEED", "1"))
    print("check: property=%s tier=%s VERIF_SEED=%d (deadlock engine + race engine)" % (pid, tier, seed))
    t0 = time.time()
    v1, h1, s1, b1 = run_engine(chk, False, pid, tier, seed, meta, "dl")
    v2, h2, s2, b2 = run_engine(chk, True, pid, tier, seed, meta, "race")
    wall = time.time() - t0
    known = {}
    kp = chk.known_path()
    if os.path.exists(kp):
        for k in json.load(open(kp)).get("known", []):
            if k["property"] == pid:
                known[k["sig"]] = k["what"]
    real, known_hits = [], {}
    for sig, rp, text in v1 + v2:
        if sig and sig in known:
            known_hits[sig] = known_hits.get(sig, 0) + 1
        else:
            real.append((sig, rp, text))
    stats = s1 + s2
    if not stats:
        chk.die("no worker produced statistics")
    ev = chk.merge_and_report(pid, tier, seed, stats, wall, meta, violations=len(real), extra_cov={
        "deadlock_engine_runs": sum(s["evaluations"] for s in s1), "race_engine_runs": sum(s["evaluations"] for s in s2),
        "race_reports": len(v2), "build_s": round(b1 + b2, 1)})
    for sig, n in sorted(known_hits.items()):
        print("KNOWN-FINDING: property=%s %s [signature %s, reported by %d workers]" % (pid, known[sig], sig, n))
    if real:
        sig, rp, text = real[0]
        if rp:
            print("VIOLATION property=%s replay=%s\n  kind=data-race signature=%s\n%s" % (pid, rp, sig, text[:3000]))
        else:
            print(text)
        return 1
    if h1 or h2:
        return 2
    print("check: %s held on %d simulated runs (%d deadlock-engine, %d race-engine; %.1fs)" % (
        pid, ev["coverage"]["evaluations"], ev["coverage"]["deadlock_engine_runs"], ev["coverage"]["race_engine_runs"], wall))
    return 0


def replay(path, chk):
    rf = json.load(open(path))
    race = rf.get("engine") == "race"
    with chk.Scratch(race=race) as sc:
        binp = sc.build()
        rp = path
        if race:
            # the generic replay reader wants the scenario as a JSON value
            rp = os.path.join(sc.dir, "replay.json")
            json.dump(rf, open(rp, "w"))
        env = dict(chk.ENV, VERIF_REPLAY=rp, VERIF_KNOWN=chk.known_path(), TMPDIR=sc.dir, GORACE="halt_on_error=1 exitcode=66")
        r = subprocess.run(chk.worker_cmd(binp, "C03"), env=env, cwd=sc.dir, capture_output=True, text=True)
        out = r.stdout + r.stderr
        if r.returncode == 66 or "WARNING: DATA RACE" in out:
            rep = out[out.find("WARNING: DATA RACE"):][:3000]
            print("VIOLATION property=C03 replay=%s\n  data race reproduced, signature=%s\n%s" % (path, race_signature(rep), rep))
            return 1
        print("\n".join(l for l in r.stdout.splitlines() if not l.startswith(("--- ", "=== ", "FAIL", "PASS", "ok "))))
        if "VIOLATION property=" in r.stdout:
            return 1
        return 0 if r.returncode == 0 else 2
