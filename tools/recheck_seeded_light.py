#!/usr/bin/env python3
"""Light re-run after a harness change: for every seeded change of the given properties, apply patch.diff to a scratch
worktree of /repo HEAD and run only `./check <prop> quick` against it (no suite / demonstration re-confirmation, no
meta.json rewrite - tools/run_seeded.py does those). Prints one line per change and a summary; exit 1 if a change
that SUMMARY.json lists as caught by its own quick check is now missed.
usage: recheck_seeded_light.py [Cxx ...]      (PAR=<n> workers, default 4)"""
import concurrent.futures, glob, json, os, subprocess, sys, tempfile
props = set(sys.argv[1:])
summary = {r[0]: r[3] for r in json.load(open("/verif/seeded/SUMMARY.json"))}
def one(d):
    name = os.path.basename(d)
    prop = json.load(open(os.path.join(d, "meta.json")))["breaks_property"]
    wt = tempfile.mkdtemp(prefix="lightwt-"); os.rmdir(wt)
    try:
        subprocess.run(["git", "-C", "/repo", "worktree", "add", "-q", "--detach", wt, "HEAD"], check=True, capture_output=True)
        p = os.path.join(d, "patch.diff")
        if subprocess.run(["git", "apply", p], cwd=wt, capture_output=True).returncode != 0:
            if subprocess.run(["git", "apply", "-3", p], cwd=wt, capture_output=True).returncode != 0:
                return name, prop, "patch-does-not-apply"
        r = subprocess.run(["/verif/check", prop, "quick"], env=dict(os.environ, VERIF_REPO=wt), capture_output=True, text=True)
        return name, prop, {0: "MISSED", 1: "quick"}.get(r.returncode, "exit%d" % r.returncode)
    finally:
        subprocess.run(["git", "-C", "/repo", "worktree", "remove", "--force", wt], capture_output=True)
dirs = [d for d in sorted(glob.glob("/verif/seeded/*")) if os.path.isfile(os.path.join(d, "meta.json"))]
dirs = [d for d in dirs if not props or json.load(open(os.path.join(d, "meta.json")))["breaks_property"] in props]
regress = 0
with concurrent.futures.ThreadPoolExecutor(max_workers=int(os.environ.get("PAR", "4"))) as ex:
    for name, prop, res in ex.map(one, dirs):
        was = summary.get(name, "?")
        flag = ""
        if was == "quick" and res != "quick":
            flag = "  <-- REGRESSION"; regress += 1
        print(name, prop, "was=" + was, "now=" + res + flag, flush=True)
print("%d changes re-run, %d regressions" % (len(dirs), regress))
sys.exit(1 if regress else 0)
