#!/usr/bin/env python3
"""No-alarm guard, part 2: behaviour-preserving changes written by independent sub-agents (given only a property's
text and asked for changes that PRESERVE it). Each is applied in a scratch worktree, the touched modules' suites are
run, and the property's check plus the checks of neighbouring properties are run (quick tier). An alarm means either
the change does break a property after all (then it is looked at by hand and may become a seeded change) or an
oracle encodes the implementation (a false alarm to repair).
usage: run_agent_refactors.py <dir with Cxx/OUT/rK/patch.diff> [Cxx ...]   - copies accepted ones to refactors/agent/"""
import concurrent.futures, glob, json, os, shutil, subprocess, sys, tempfile
ENV = dict(os.environ, GOFLAGS="-mod=mod", GOPROXY="off", GOSUMDB="off", GOTOOLCHAIN="local")
NEIGH = {
 "C01": "C01 C02 C04 C03", "C02": "C02 C01 C04 C03", "C03": "C03 C02 C07 C06", "C04": "C04 C01 C02 C08", "C05": "C05 C07 C20 C03",
 "C06": "C06 C07 C03 C05", "C07": "C07 C06 C03 C05", "C08": "C08 C04 C09 C20", "C09": "C09 C13 C20 C12", "C10": "C10 C11 C12 C14",
 "C11": "C11 C10 C12 C18", "C12": "C12 C11 C10 C13", "C13": "C13 C09 C20 C12", "C14": "C14 C10 C12", "C16": "C16 C17 C03",
 "C17": "C17 C16 C12 C03", "C18": "C18 C19 C11", "C19": "C19 C18", "C20": "C20 C05 C13 C08",
}
def one(item):
    src, prop, name = item
    wt = tempfile.mkdtemp(prefix="refwt-"); os.rmdir(wt)
    subprocess.run(["git", "-C", "/repo", "worktree", "add", "-q", "--detach", wt, "HEAD"], check=True)
    res = {"name": name, "property": prop}
    try:
        patch = src if src.endswith(".diff") else os.path.join(src, "patch.diff")
        r = subprocess.run(["git", "apply", patch], cwd=wt, capture_output=True, text=True)
        res["applies"] = r.returncode == 0
        if r.returncode != 0:
            res["err"] = r.stderr[-300:]
            return res
        touched = subprocess.check_output(["git", "diff", "--name-only"], cwd=wt, text=True).split()
        mods = {"."}
        for f in touched:
            for m in ("stores/sqlite", "stores/durablestream", "otel"):
                if f.startswith(m + "/"):
                    mods.add(m)
        ok = True
        for m in sorted(mods):
            passed = False
            for attempt in range(3 if m == "." else 2):
                t = subprocess.run(["go1.26.8", "test", "-count=1", "./..."], cwd=os.path.join(wt, m), env=ENV, capture_output=True, text=True)
                if t.returncode == 0:
                    passed = True
                    break
                res["suite_output"] = (t.stdout + t.stderr)[-800:]
            ok = ok and passed
        res["suite_pass"] = ok
        res["checks"] = {}
        for pid in NEIGH[prop].split():
            c = subprocess.run(["/verif/check", pid, "quick"], env=dict(ENV, VERIF_REPO=wt), cwd="/verif", capture_output=True, text=True)
            res["checks"][pid] = c.returncode
            if c.returncode != 0:
                res.setdefault("alarms", []).append([pid, [l for l in c.stdout.splitlines() if l.startswith(("VIOLATION", "  kind="))][:3] + c.stdout.splitlines()[3:5], c.stderr[-400:] if c.returncode == 2 else ""])
    finally:
        subprocess.run(["git", "-C", "/repo", "worktree", "remove", "--force", wt], capture_output=True)
        shutil.rmtree(wt, ignore_errors=True)
    return res
def main():
    base = sys.argv[1]
    only = sys.argv[2:]
    items = []
    for d in sorted(glob.glob(os.path.join(base, "C*/OUT/[rs]*"))):
        prop = d.split("/")[-3]
        if only and prop not in only:
            continue
        if os.path.exists(os.path.join(d, "patch.diff")):
            items.append((d, prop, "%s-%s" % (prop, os.path.basename(d))))
    # re-run of the stored ones: <base>/Cxx-rK.diff
    for f in sorted(glob.glob(os.path.join(base, "C*-*.diff"))):
        name = os.path.basename(f)[:-5]
        if only and name[:3] not in only:
            continue
        items.append((f, name[:3], name))
    outp = "/verif/refactors/agent/RESULTS.json"
    os.makedirs(os.path.dirname(outp), exist_ok=True)
    results = json.load(open(outp)) if os.path.exists(outp) else {}
    with concurrent.futures.ThreadPoolExecutor(max_workers=int(os.environ.get("REF_PAR", "4"))) as ex:
        for (src, prop, name), res in zip(items, ex.map(one, items)):
            results[name] = res
            print(json.dumps(res)[:600], flush=True)
            if res.get("applies") and not src.endswith(".diff"):
                shutil.copy(os.path.join(src, "patch.diff"), "/verif/refactors/agent/%s.diff" % name)
                if os.path.exists(os.path.join(src, "notes.md")):
                    shutil.copy(os.path.join(src, "notes.md"), "/verif/refactors/agent/%s.md" % name)
            json.dump(results, open(outp, "w"), indent=1)
    bad = [n for n, r in results.items() if not r.get("applies") or not r.get("suite_pass") or any(v != 0 for v in r.get("checks", {}).values())]
    print("agent refactors with an alarm or problem:", bad)
main()
