#!/usr/bin/env python3
"""Rebuilds seeded/SUMMARY.json from every seeded/*/meta.json (a partial tools/run_seeded.py run only writes its own rows)."""
import glob, json, os
from collections import Counter
oor = json.load(open('/verif/seeded/out_of_reach.json')) if os.path.exists('/verif/seeded/out_of_reach.json') else {}
rows = []
for d in sorted(glob.glob('/verif/seeded/*')):
    if not os.path.isdir(d):
        continue
    m = json.load(open(d + '/meta.json')); n = os.path.basename(d)
    cr = m.get('check_result', {})
    c = 'quick' if cr.get('quick', {}).get('exit') == 1 else 'thorough' if cr.get('thorough', {}).get('exit') == 1 else 'MISSED'
    also = [o for o, v in (m.get('also_checked') or {}).items() if v.get('exit') == 1]
    if c == 'MISSED' and also:
        c = 'other:' + ','.join(also)
    if c == 'MISSED' and n in oor:
        c = 'out-of-reach'
    if c == 'MISSED' and n in (json.load(open('/verif/seeded/not_addressed.json')) if os.path.exists('/verif/seeded/not_addressed.json') else {}):
        c = 'not-addressed'
    conf = m.get('confirmed', {})
    ok = all(conf.get(k) for k in ('existing_suites_pass_with_patch', 'demo_fails_with_patch', 'demo_passes_without_patch'))
    rows.append((n, m['breaks_property'], bool(ok), c))
json.dump(rows, open('/verif/seeded/SUMMARY.json', 'w'), indent=1)
print(len(rows), dict(Counter(r[3].split(':')[0] for r in rows)), [r for r in rows if not r[2] or r[3] == 'MISSED'])
