#!/usr/bin/env python3
"""Regenerates /verif/MANIFEST.json from the table below (keeps it valid by construction)."""
import json, subprocess, sys
sys.path.insert(0, "/verif/sim")
from propmeta import PROPS

SIM = "deterministic simulation: seeded cooperative scheduler over an instrumented copy of the repo (sync/atomic/go/select routed through simshim) inside a testing/synctest bubble, rapid-generated scenarios + choice tapes with shrinking, fault injection, history oracle"
NOTE = "Trusts the simulated sync primitives (simshim/simsync) and the atomic-step assumption between decision points; the search samples schedules/fault placements, it does not enumerate them. Evidence reports runs, distinct schedule signatures, faults fired and probes per run."

TEXT = {
 "C01": ("exploration", "Operation-by-operation refinement of the real bus against a reference registry over generated sequences of all registry/publish calls on up to 40 event types (more than shards), all option subsets, repeated registrations of one function, interface-typed publishes and re-entrant operations scripted into handlers; async deliveries are simulator tasks.", "reference-model refinement under the simulator"),
 "C02": ("exploration", "Seeded search over interleavings of 2-4 client tasks at lock/unlock/CAS/go/handler-entry granularity; the oracle is the property's own interval rules over the step-stamped history plus probe publishes against the quiescent registry.", "interval-order history oracle + quiescent probe"),
 "C04": ("exploration", "Seeded search over publisher interleavings and over sequences of eligible, filtered-out and pre-cancelled publishes; oracle counts invocations per Once registration (closures sharing one code pointer included), compares HandlerCount/HasHandlers with the eligibility model, then probes unfired Once handlers with an eligible event.", "counting + eligibility history oracle"),
 "C05": ("exploration", "Fault injection: panics with five kinds of panic values injected at chosen invocations of handlers of every kind/option combination, with/without panic handler, Observability and reflection dispatch; oracle: publisher and async tasks never see the panic, every other delivery happens exactly once, panic handler called once per panic with event/handler type/value, Sequential handlers run again (else the scheduler reports the deadlock), Once handlers stay retired, Wait returns.", "panic injection + delivery model + scheduler deadlock verdict"),
 "C06": ("exploration", "Async handlers with simulated durations and nested publishes; Wait/Shutdown issued at scheduler-chosen points incl. repeated Shutdown with background/deadline/cancelled contexts against a Close-counting store; oracle over step stamps: every async invocation transitively caused by a publish that returned before the call has exited before the return; Close exactly once and only after them on nil, never on a context error.", "completion-stamp history oracle with fake clock"),
 "C07": ("exploration", "Concurrent publishers and async dispatch tasks against Sequential handlers whose bodies yield between enter/exit marks, with panicking invocations and registry-reshuffling neighbours; oracle: no overlapping intervals, exactly-once delivery, per-publisher order for Async+Sequential.", "interval non-overlap + order history oracle"),
 "C08": ("exploration", "Handler lists of every sync/async/context-aware mix, context cancelled before the call, by the k-th handler or by a simulated-time deadline, every subset of hooks via options or setters; oracle over the stamped trace: no handler on a dead context, no further sync handler after cancellation, context values and cancellation visible in context-aware handlers, each hook exactly once, before hooks before any handler, after hooks after all sync handlers.", "trace rules over stamped history"),
 "C03": ("exploration", "Two engines over the same seeded scenarios mixing every public call (setters excluded) from 2-5 tasks with re-entrant handlers, filters and hooks: (1) the scheduler's deadlock verdict - every unfinished task blocked on a simulated primitive with no timer pending - with the wait-for graph; (2) the real Go race detector in a -race build in which the simulator's hand-offs are hidden (runtime.RaceDisable, //go:norace) and the shims re-create exactly the happens-before edges of Mutex/RWMutex/WaitGroup/Once/atomics, so two accesses that ebu's own synchronisation leaves unordered are reported even though they ran far apart in a deterministic serial schedule; the report replays from the scenario file.", "scheduler deadlock verdict + Go race detector with modelled happens-before under a serialised schedule"),
 "C16": ("exploration", "Registration decisions compared with a reachability-graph model: exhaustively for every sequence up to length 4 (quick) / 5 (thorough) over a 20-operation alphabet on 3 names, sampled for longer sequences over up to 6 names; racing registrations/clears checked for linearizability against the same model (porcupine), which rules out two racing edges closing a cycle; termination of ReplayWithUpcast / SubscribeWithReplay for raw upcasters that return a type other than the declared target, judged by a scheduler step budget.", "graph-model refinement (partly exhaustive) + porcupine + step-budget liveness"),
 "C17": ("fault_enumeration", "For sampled acyclic upcaster graphs (chains, branches, several upcasters per source, raw and typed steps) and logs, a failure is injected at each position k of the replay's upcaster applications (and via undecodable typed payloads); the callback must see exactly the model's composed type/data with offset and timestamp untouched, the original event after any failed step, and one error-handler call per failed chain; typed delivery checked through SubscribeWithReplay.", "failure-position enumeration against a chain model"),
 "C18": ("exploration", "Generated state-protocol logs over several entity types and separator-containing keys are materialized in 1-3 Replay sessions, all but the last cut short by an injected store read failure and resumed from LastOffset (streaming and paged paths, MemoryStore and SQLite, strict and non-strict); the result must equal a last-writer-wins fold, a single-session twin, and LastOffset/Get/callback counts must match.", "log-fold reference model + interrupted/resumed sessions by read-fault injection"),
 "C19": ("exploration", "Round trip of every helper x option x entity x key combination through publish, each of the three stores and replay, with the stored JSON checked against the protocol's member names; then read-path corruption faults (bit flip, truncation, torn tail, foreign bytes, malformed documents, random bytes) on chosen stored events: Apply never panics, an error leaves collections and LastOffset unchanged, success changes state only as an independent protocol decoder says.", "round-trip oracle + stored-byte corruption injection"),
 "C20": ("exploration", "Workloads mixing every handler kind, panics, cancelled contexts and failing/timing-out persistence under the scheduler; a token-carrying recorder checks pairing by the context each start returned, descent from the publish context, truthfulness of the error flags and ordering; the real OpenTelemetry implementation is checked on SDK recorders: every span ended exactly once, parents, error status, and all five counters against the true counts.", "callback-pair automaton over the stamped trace + OTel SDK recorders"),
 "C09": ("exploration", "Every permutation/subset of 11 bus options containing WithStore (sampled), concurrent publishers, four event-type shapes and six payload variants, MemoryStore and SQLite; handlers look up the event they are handling in the store; after quiescence exactly N complete records with distinct increasing offsets whose decoding yields the published values.", "option-permutation swarm + in-handler store probe + record model"),
 "C10": ("exploration", "Call-by-call refinement of MemoryStore, SQLite (batch knobs) and durable-streams (chunk knobs, in-process server) against a single-copy log model over generated Append/Read/ReadStream/SaveOffset/LoadOffset sequences with arbitrary limits and resume points taken from offsets the store returned; concurrent phase checked for linearizability with porcupine; durable-streams transport loses requests/responses (lost-ack relaxed to present-or-absent).", "reference-log refinement + porcupine linearizability + transport fault injection"),
 "C13": ("exploration", "Fault injection on the k-th Append (fail, lost acknowledgement, block until the simulated persistence timeout), unencodable events at drawn positions, 1-2 publishers, re-entrant error handlers; oracle: all handlers still receive every event, publish returns, one error report per failing publish with event/type/error, exactly one Append attempt per encodable event and none for unencodable ones, log = the durable appends in order with increasing offsets.", "append-fault plans + counting oracle + log model"),
}

def main():
    ids = [json.loads(l)["id"] for l in open("/verif/properties.jsonl")]
    reasons = json.load(open("/verif/tools/not_applicable.json"))
    hooks_commits = json.load(open("/verif/tools/hook_commits.json"))
    checks = []
    for pid in ids:
        if pid not in PROPS or pid not in TEXT:
            continue
        cat, text, tech = TEXT[pid]
        checks.append({
            "property_id": pid, "quick_cmd": "./check %s quick" % pid, "thorough_cmd": "./check %s thorough" % pid,
            "evidence_file": "evidence/%s.json" % pid, "replay_cmd_template": "./check replay {path}", "engine": PROPS[pid].get("engine", "ebusim"),
            "level_claimed": {"category": cat, "text": text, "design_ref": "DESIGN.md section 4, " + pid},
            "level_note": PROPS[pid].get("level_note", NOTE),
            "technique": "deterministic simulation with fault injection: " + tech,
        })
    claimed = {c["property_id"] for c in checks}
    na = [{"property_id": i, "reason": reasons.get(i, "check not built yet (framework under construction; see DESIGN.md section 11)")} for i in ids if i not in claimed]
    m = {
        "version": 1, "setup_cmd": "./check setup",
        "hooks": {"guard": "verif", "enable": "checks copy /repo's working tree to a scratch directory, rewrite it with /verif/sim/instrument and build the harness there with -tags verif; /repo itself is never modified by a check",
                  "baseline_off_cmd": "./check baseline", "source_commits": hooks_commits, "add_only": True},
        "engines": [
            {"name": "ebusim", "path": "sim/", "serves_properties": sorted(claimed), "kind_free_text": SIM},
        ],
        "checks": checks, "not_applicable": na,
        "notes": "Genuine defects found by the checks and repaired are listed in known_findings.json (fixed:) and DESIGN.md section 6; seeded property-breaking changes and which check catches them are under seeded/.",
    }
    json.dump(m, open("/verif/MANIFEST.json", "w"), indent=1)
    print("claimed:", sorted(claimed))

main()
