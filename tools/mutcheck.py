#!/usr/bin/env python3
"""Confirm a seeded change and run the checks against it.

usage: mutcheck.py <mutant-dir> <property> [tier]   (mutant-dir has patch.diff, demo_test.go, notes.md)

1. fresh scratch worktree of /repo HEAD; the existing suites pass with the patch
2. the demonstration fails with the patch and passes without it
3. ./check <property> <tier> against the patched worktree (VERIF_REPO)
Prints a JSON summary.
"""
import json, os, re, subprocess, sys, tempfile, shutil, time

ENV = dict(os.environ, GOFLAGS="-mod=mod", GOPROXY="off", GOSUMDB="off", GOTOOLCHAIN="local")
GO = "go1.26.8"

def sh(cmd, cwd=None, timeout=1800):
    r = subprocess.run(cmd, cwd=cwd, env=ENV, capture_output=True, text=True, timeout=timeout)
    return r.returncode, (r.stdout + r.stderr)

def demo_dir(src):
    m = re.search(r'^package\s+(\w+)', src, re.M)
    pkg = m.group(1) if m else "eventbus"
    return {"eventbus": ".", "eventbus_test": ".", "sqlite": "stores/sqlite", "sqlite_test": "stores/sqlite",
            "durablestream": "stores/durablestream", "durablestream_test": "stores/durablestream",
            "state": "state", "state_test": "state", "otel": "otel", "otel_test": "otel"}.get(pkg, ".")

def main():
    mdir, prop = sys.argv[1], sys.argv[2]
    tiers = sys.argv[3:] or ["quick"]
    res = {"mutant": mdir, "property": prop}
    wt = tempfile.mkdtemp(prefix="mutwt-")
    os.rmdir(wt)
    try:
        rc, out = sh(["git", "-C", "/repo", "worktree", "add", "-q", "--detach", wt, "HEAD"])
        assert rc == 0, out
        patch = os.path.join(mdir, "patch.diff")
        demo = open(os.path.join(mdir, "demo_test.go")).read()
        dd = demo_dir(demo)
        dpath = os.path.join(wt, dd, "zz_demo_test.go")
        # demo without the patch
        open(dpath, "w").write(demo)
        names = "|".join(re.findall(r'^func (Test\w+)\(', demo, re.M))
        rc0, out0 = sh([GO, "test", "-count=1", "-run", "^(%s)$" % names, "."], cwd=os.path.join(wt, dd))
        res["demo_without_patch_pass"] = rc0 == 0
        os.remove(dpath)
        rc, out = sh(["git", "apply", patch], cwd=wt)
        if rc != 0:
            # written against an older base (before later fix: commits): three-way merge, then refresh the patch
            rc, out = sh(["git", "apply", "-3", patch], cwd=wt)
            if rc != 0:
                # fall back: apply the hunks that fit; a rejected hunk that only adds lines
                # (a new top-level function) is appended to the end of its file
                sh(["git", "checkout", "-q", "--", "."], cwd=wt)
                sh(["git", "reset", "-q", "--hard"], cwd=wt)
                sh(["git", "apply", "--reject", patch], cwd=wt)
                rc = 0
                import glob
                for rej in glob.glob(os.path.join(wt, "**", "*.rej"), recursive=True):
                    target = rej[:-4]
                    added, removed = [], 0
                    for line in open(rej).read().splitlines():
                        if line.startswith(("diff ", "--- ", "+++ ", "@@")):
                            continue
                        if line.startswith("+"):
                            added.append(line[1:])
                        elif line.startswith("-"):
                            removed += 1
                    os.remove(rej)
                    if removed:
                        rc, out = 1, "rejected hunk is not a pure addition: " + rej
                        break
                    open(target, "a").write("\n" + "\n".join(added) + "\n")
                if rc == 0:
                    for m in [".", "stores/sqlite", "stores/durablestream", "otel"]:
                        rb, ob = sh([GO, "build", "./..."], cwd=os.path.join(wt, m))
                        if rb != 0:
                            rc, out = 1, "rebased patch does not build: " + ob[-400:]
                res["hunks_relocated"] = True
            if rc == 0:
                sh(["git", "reset", "-q"], cwd=wt)
                rc2, newdiff = sh(["git", "diff"], cwd=wt)
                open(os.path.join(mdir, "patch.rebased.diff"), "w").write(newdiff)
                res["rebased"] = True
        res["patch_applies"] = rc == 0
        if rc != 0:
            res["error"] = out[-500:]
            print(json.dumps(res, indent=1)); return
        rc, out = sh(["git", "diff", "--stat"], cwd=wt)
        touched = out
        suites = {}
        mods = ["."]
        for m in ["stores/sqlite", "stores/durablestream", "otel"]:
            if m in touched or True:
                mods.append(m)
        ok = True
        for m in mods:
            # the root suite has timing-based tests that flake when the machine is loaded (also on the
            # unmodified tree): it must pass twice out of at most four runs
            need, tries, passed = (2, 4, 0) if m == "." else (1, 2, 0)
            for rep in range(tries):
                rc, out = sh([GO, "test", "-count=1", "./..."], cwd=os.path.join(wt, m))
                suites["%s#%d" % (m, rep)] = rc == 0
                if rc == 0:
                    passed += 1
                else:
                    res["suite_output"] = out[-1500:]
                if passed >= need:
                    break
            ok = ok and passed >= need
        res["existing_suite_pass"] = ok
        res["suites"] = suites
        open(dpath, "w").write(demo)
        rc1, out1 = sh([GO, "test", "-count=1", "-run", "^(%s)$" % names, "."], cwd=os.path.join(wt, dd))
        if rc1 == 0:
            # some demonstrations (data races) only fail under the race detector
            rc1, out1 = sh([GO, "test", "-race", "-count=1", "-run", "^(%s)$" % names, "."], cwd=os.path.join(wt, dd))
            res["demo_needs_race_detector"] = rc1 != 0
        res["demo_with_patch_fail"] = rc1 != 0
        res["demo_with_patch_tail"] = out1[-600:]
        os.remove(dpath)
        for tier in tiers:
            t0 = time.time()
            env = dict(ENV, VERIF_REPO=wt)
            r = subprocess.run(["/verif/check", prop, tier], env=env, capture_output=True, text=True, cwd="/verif")
            res["check_%s_exit" % tier] = r.returncode
            res["check_%s_s" % tier] = round(time.time() - t0, 1)
            lines = [l for l in r.stdout.splitlines() if l.startswith(("VIOLATION", "  kind=", "KNOWN-FINDING"))]
            res["check_%s_out" % tier] = lines[:3] + ([r.stdout.splitlines()[3][:300]] if r.returncode == 1 and len(r.stdout.splitlines()) > 3 else [])
            if r.returncode == 2:
                res["check_%s_err" % tier] = (r.stdout + r.stderr)[-1500:]
            if r.returncode == 1:
                break
        # a change written against one property may be out of reach of that property's check by its very
        # quantifier (e.g. a cancellation race against the sequential-history property C01) and belong to
        # other properties' checks: seeded/also_caught_by.json names them, and they are run here as well
        also_name = os.environ.get("MUT_KEEP_NAME") or (os.path.basename(os.path.dirname(os.path.dirname(mdir.rstrip("/")))) + "-" + os.environ.get("MUT_PREFIX", "") + os.path.basename(mdir.rstrip("/")))
        alsop = "/verif/seeded/also_caught_by.json"
        if os.path.exists(alsop) and not any(res.get("check_%s_exit" % t) == 1 for t in tiers):
            for other in json.load(open(alsop)).get(also_name, []):
                r = subprocess.run(["/verif/check", other, "quick"], env=dict(ENV, VERIF_REPO=wt), capture_output=True, text=True, cwd="/verif")
                lines = [l for l in r.stdout.splitlines() if l.startswith(("VIOLATION", "  kind="))]
                res.setdefault("also", {})[other] = {"exit": r.returncode, "output": lines[:2]}
    finally:
        subprocess.run(["git", "-C", "/repo", "worktree", "remove", "--force", wt], capture_output=True)
        shutil.rmtree(wt, ignore_errors=True)
    print(json.dumps(res, indent=1))
    keep = os.environ.get("MUT_KEEP", "") not in ("", "0", "no", "false")
    if keep and res.get("patch_applies") and res.get("existing_suite_pass") and res.get("demo_with_patch_fail") and res.get("demo_without_patch_pass"):
        name = os.path.basename(os.path.dirname(os.path.dirname(mdir.rstrip("/")))) + "-" + os.environ.get("MUT_PREFIX", "") + os.path.basename(mdir.rstrip("/"))
        name = os.environ.get("MUT_KEEP_NAME", name)
        d = os.path.join("/verif/seeded", name)
        os.makedirs(d, exist_ok=True)
        src = os.path.join(mdir, "patch.rebased.diff") if res.get("rebased") else patch
        def cp(a, b):
            if os.path.abspath(a) != os.path.abspath(b):
                shutil.copy(a, b)
        cp(src, os.path.join(d, "patch.diff"))
        cp(os.path.join(mdir, "demo_test.go"), os.path.join(d, "demo_test.go"))
        notes = os.path.join(mdir, "notes.md")
        if os.path.exists(notes):
            cp(notes, os.path.join(d, "notes.md"))
        if os.path.exists(os.path.join(d, "patch.rebased.diff")):
            os.remove(os.path.join(d, "patch.rebased.diff"))
        caught = [t for t in tiers if res.get("check_%s_exit" % t) == 1]
        head = subprocess.check_output(["git", "-C", "/repo", "rev-parse", "--short", "HEAD"], text=True).strip()
        source = "independent sub-agent given only the property text and a scratch worktree"
        if "-w8m" in name:
            source = "regression: the reverse of one of /repo's fix: commits; a sub-agent was given the fix commit and the reverse patch (nothing from /verif), confirmed that the existing suites stay green and wrote the demonstration"
        meta = {"breaks_property": prop, "source": source,
                "needs_to_manifest": "see notes.md", "patch_base": head,
                "confirmed": {"existing_suites_pass_with_patch": True, "demo_fails_with_patch": True, "demo_passes_without_patch": True,
                              "demo_package_dir": dd},
                "ran": ["python3 tools/mutcheck.py %s %s %s" % (mdir, prop, " ".join(tiers))],
                "check_result": {t: {"exit": res.get("check_%s_exit" % t), "seconds": res.get("check_%s_s" % t), "output": res.get("check_%s_out" % t)} for t in tiers if ("check_%s_exit" % t) in res},
                "detected_by": ("./check %s %s" % (prop, caught[0])) if caught else None}
        if res.get("also"):
            meta["also_checked"] = res["also"]
            hits = ["./check %s quick" % o for o, v in res["also"].items() if v["exit"] == 1]
            if hits and not caught:
                meta["detected_by"] = ", ".join(hits) + " (not by ./check %s: see DESIGN.md section 12)" % prop
        json.dump(meta, open(os.path.join(d, "meta.json"), "w"), indent=1)

main()
