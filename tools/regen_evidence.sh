#!/bin/sh
# Re-runs every claimed quick check on /repo so that the committed evidence files describe quick-tier runs.
cd /verif
for id in $(python3 -c "import json;print(' '.join(c['property_id'] for c in json.load(open('MANIFEST.json'))['checks']))"); do
  ./check $id quick > /tmp/regen_$id.log 2>&1; echo "$id exit=$? $(grep -c KNOWN-FINDING /tmp/regen_$id.log) known $(tail -1 /tmp/regen_$id.log)"
done
