#!/usr/bin/env python3
"""Fills the seeded-changes table in DESIGN.md from seeded/*/meta.json."""
import glob, json, os, re
rows = []
for d in sorted(glob.glob("/verif/seeded/*")):
    if not os.path.isdir(d):
        continue
    m = json.load(open(os.path.join(d, "meta.json")))
    notes = ""
    np = os.path.join(d, "notes.md")
    if os.path.exists(np):
        for line in open(np):
            line = line.strip().lstrip("#").strip()
            if len(line) > 20 and not line.lower().startswith(("clause", "mutant", "notes")):
                notes = line
                break
    cr = m.get("check_result", {})
    tier = "quick" if cr.get("quick", {}).get("exit") == 1 else ("thorough" if cr.get("thorough", {}).get("exit") == 1 else "MISSED")
    also = [o for o, v in (m.get("also_checked") or {}).items() if v.get("exit") == 1]
    if tier == "MISSED" and also:
        tier = "not by `./check %s`; by `./check %s quick`" % (m["breaks_property"], "`, `./check ".join(also) + "")
    oor = json.load(open("/verif/seeded/out_of_reach.json")) if os.path.exists("/verif/seeded/out_of_reach.json") else {}
    if tier == "MISSED" and os.path.basename(d) in oor:
        tier = "**not caught** (out of reach, see below)"
    na = json.load(open("/verif/seeded/not_addressed.json")) if os.path.exists("/verif/seeded/not_addressed.json") else {}
    if tier == "MISSED" and os.path.basename(d) in na:
        tier = "**not caught** (last round, not addressed, see below)"
    kind = ""
    if tier.startswith("not by"):
        for o in also:
            for l in m["also_checked"][o].get("output") or []:
                if "kind=" in l and not kind:
                    kind = l.split("kind=")[1].split()[0]
    for t in ("quick", "thorough"):
        for l in (cr.get(t, {}).get("output") or []):
            if "kind=" in l:
                kind = l.split("kind=")[1].split()[0]
                break
            if l.startswith("  ") and not kind:
                kind = l.strip()[:60]
        if kind:
            break
    rows.append("| %s | %s | %s | %s | %s |" % (os.path.basename(d), m["breaks_property"], (notes[:110] + "...") if len(notes) > 110 else notes, tier, kind))
table = "| seeded change | property | what it is (first line of the author's notes) | caught by `./check <property>` tier | violation kind reported |\n|---|---|---|---|---|\n" + "\n".join(rows)
s = open("/verif/DESIGN.md").read()
s = re.sub(r"<!-- SEEDED-TABLE-BEGIN -->.*<!-- SEEDED-TABLE-END -->", "<!-- SEEDED-TABLE-BEGIN -->\n" + table.replace("\\", "\\\\") + "\n<!-- SEEDED-TABLE-END -->", s, flags=re.S)
open("/verif/DESIGN.md", "w").write(s)
print(len(rows), "rows")
