#!/usr/bin/env python3
"""Robustness of detection: every seeded change is applied in a scratch worktree and its property's quick check is run
with another VERIF_SEED (default 2). A change that is only found under the default seed is found by luck.
usage: seed_robustness.py [seed] [names...]  -> seeded/ROBUSTNESS-seed<k>.json"""
import concurrent.futures, glob, json, os, shutil, subprocess, sys, tempfile
ENV = dict(os.environ, GOFLAGS="-mod=mod", GOPROXY="off", GOSUMDB="off", GOTOOLCHAIN="local")
seed = sys.argv[1] if len(sys.argv) > 1 else "2"
only = sys.argv[2:]
also = json.load(open("/verif/seeded/also_caught_by.json"))
def one(d):
    name = os.path.basename(d)
    prop = json.load(open(os.path.join(d, "meta.json")))["breaks_property"]
    wt = tempfile.mkdtemp(prefix="robwt-"); os.rmdir(wt)
    subprocess.run(["git", "-C", "/repo", "worktree", "add", "-q", "--detach", wt, "HEAD"], check=True)
    try:
        r = subprocess.run(["git", "apply", os.path.join(d, "patch.diff")], cwd=wt, capture_output=True, text=True)
        if r.returncode != 0:
            return name, prop, "patch-does-not-apply"
        for p in [prop] + also.get(name, []):
            c = subprocess.run(["/verif/check", p, "quick"], env=dict(ENV, VERIF_REPO=wt, VERIF_SEED=seed), cwd="/verif", capture_output=True, text=True)
            if c.returncode == 1:
                return name, prop, "caught" if p == prop else "caught-by-" + p
            if c.returncode == 2:
                return name, prop, "exit2:" + (c.stdout + c.stderr)[-200:]
        return name, prop, "MISSED"
    finally:
        subprocess.run(["git", "-C", "/repo", "worktree", "remove", "--force", wt], capture_output=True)
        shutil.rmtree(wt, ignore_errors=True)
dirs = [d for d in sorted(glob.glob("/verif/seeded/*")) if os.path.isdir(d) and (not only or os.path.basename(d) in only)]
res = {}
with concurrent.futures.ThreadPoolExecutor(max_workers=int(os.environ.get("SEEDED_PAR", "5"))) as ex:
    for name, prop, out in ex.map(one, dirs):
        res[name] = out
        if not out.startswith("caught"):
            print(name, prop, out, flush=True)
json.dump(res, open("/verif/seeded/ROBUSTNESS-seed%s.json" % seed, "w"), indent=1)
print(len(res), "changes;", sum(1 for v in res.values() if v.startswith("caught")), "caught with VERIF_SEED=%s" % seed)
