#!/usr/bin/env python3
"""No-alarm guard: semantics-preserving refactors of jilio/ebu (refactors/*.diff) must pass the
repo's suite AND must not make any check raise an alarm - otherwise an oracle encodes the implementation."""
import json, os, subprocess, sys, tempfile, shutil, glob
ENV = dict(os.environ, GOFLAGS="-mod=mod", GOPROXY="off", GOSUMDB="off", GOTOOLCHAIN="local")
REL = {
 "shards-8": "C01 C02 C03 C04 C05", "shards-128": "C01 C02 C03 C04", "hash-sum": "C01 C02 C03 C04",
 "unsubscribe-copy-on-write": "C01 C02 C03 C04 C07", "once-removal-rebuild": "C01 C02 C03 C04 C05 C07",
 "after-hooks-swapped": "C08 C09 C20 C03",
 "replay-default-batch-50": "C11 C12 C18 C17", "sqlite-synchronous-full": "C10 C11 C14 C12",
 "persist-typename-first": "C09 C13 C20 C12", "upcast-dfs-iterative": "C16 C17 C03", "wait-channel-based": "C06 C03 C05 C07 C20",
 "unsubscribe-last-match": "C01 C02 C03 C04 C07", "clearupcasts-in-place": "C16 C17 C03", "apply-step-bound": "C16 C17 C03",
 "memstore-subscription-mutex": "C03 C10 C12", "once-retire-helper": "C01 C02 C04 C03", "panic-message-guarded": "C05 C20 C03",
 "collection-clear-by-prefix": "C18 C19", "control-malformed-rejected": "C19 C18",
}
def main():
    only = sys.argv[1:]
    results = {}
    if only and os.path.exists("/verif/refactors/RESULTS.json"):
        results = json.load(open("/verif/refactors/RESULTS.json"))  # a partial run updates the stored results
    for diff in sorted(glob.glob("/verif/refactors/*.diff")):
        name = os.path.basename(diff)[:-5]
        if only and name not in only:
            continue
        wt = tempfile.mkdtemp(prefix="refwt-"); os.rmdir(wt)
        subprocess.run(["git", "-C", "/repo", "worktree", "add", "-q", "--detach", wt, "HEAD"], check=True)
        try:
            r = subprocess.run(["git", "apply", diff], cwd=wt, capture_output=True, text=True)
            if r.returncode != 0:
                results[name] = {"applies": False, "err": r.stderr[-200:]}
                continue
            ok = True
            for m in [".", "stores/sqlite"]:
                if m == "." and os.environ.get("REF_SKIP_ROOT_SUITE"):
                    continue
                t = subprocess.run(["go1.26.8", "test", "-count=1", "./..."], cwd=os.path.join(wt, m), env=ENV, capture_output=True, text=True)
                ok = ok and t.returncode == 0
            res = {"applies": True, "suite_pass": ok, "checks": {}}
            for pid in REL.get(name, "").split():
                c = subprocess.run(["/verif/check", pid, "quick"], env=dict(ENV, VERIF_REPO=wt), cwd="/verif", capture_output=True, text=True)
                res["checks"][pid] = c.returncode
                if c.returncode != 0:
                    res.setdefault("alarms", []).append((pid, [l for l in c.stdout.splitlines() if "VIOLATION" in l or "kind=" in l][:3], c.stderr[-300:] if c.returncode == 2 else ""))
            results[name] = res
            print(name, json.dumps(res)[:400], flush=True)
        finally:
            subprocess.run(["git", "-C", "/repo", "worktree", "remove", "--force", wt], capture_output=True)
            shutil.rmtree(wt, ignore_errors=True)
    json.dump(results, open("/verif/refactors/RESULTS.json", "w"), indent=1)
    bad = [n for n, r in results.items() if not r.get("applies") or not r.get("suite_pass") or any(v != 0 for v in r.get("checks", {}).values())]
    print("refactors with an alarm or problem:", bad)
    return 1 if bad else 0
sys.exit(main())
