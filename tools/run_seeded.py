#!/usr/bin/env python3
"""Re-confirms every seeded change under /verif/seeded against the CURRENT /repo HEAD (patch applies, existing
suites pass with it, demonstration fails with it and passes without) and re-runs the property's check
(quick, then thorough if quick misses it). Rewrites each meta.json and prints a summary table."""
import concurrent.futures, glob, json, os, subprocess, sys
def one(d):
    name = os.path.basename(d)
    prop = json.load(open(os.path.join(d, "meta.json")))["breaks_property"]
    env = dict(os.environ, MUT_KEEP="1", MUT_KEEP_NAME=name)
    r = subprocess.run(["python3", "/verif/tools/mutcheck.py", d, prop, "quick", "thorough"], env=env, capture_output=True, text=True)
    try:
        res = json.loads(r.stdout)
    except Exception:
        return name, prop, {"error": (r.stdout + r.stderr)[-300:]}
    return name, prop, res
def main():
    only = sys.argv[1:]
    dirs = [d for d in sorted(glob.glob("/verif/seeded/*")) if os.path.isdir(d) and (not only or os.path.basename(d) in only)]
    rows = []
    with concurrent.futures.ThreadPoolExecutor(max_workers=int(os.environ.get("SEEDED_PAR", "5"))) as ex:
        for name, prop, res in ex.map(one, dirs):
            ok = res.get("patch_applies") and res.get("existing_suite_pass") and res.get("demo_with_patch_fail") and res.get("demo_without_patch_pass")
            caught = "quick" if res.get("check_quick_exit") == 1 else "thorough" if res.get("check_thorough_exit") == 1 else "MISSED"
            if caught == "MISSED" and any(v.get("exit") == 1 for v in (res.get("also") or {}).values()):
                caught = "other:" + ",".join(o for o, v in res["also"].items() if v.get("exit") == 1)
            rows.append((name, prop, bool(ok), caught))
            print(name, prop, "confirmed" if ok else "NOT-CONFIRMED " + str({k: res.get(k) for k in ("patch_applies", "existing_suite_pass", "demo_with_patch_fail", "demo_without_patch_pass", "error")}), caught, flush=True)
    json.dump(rows, open("/verif/seeded/SUMMARY.json", "w"), indent=1)
    oor = json.load(open("/verif/seeded/out_of_reach.json")) if os.path.exists("/verif/seeded/out_of_reach.json") else {}
    rows = [(n, p, ok, "out-of-reach" if (c == "MISSED" and n in oor) else c) for (n, p, ok, c) in rows]
    json.dump(rows, open("/verif/seeded/SUMMARY.json", "w"), indent=1)
    bad = [r for r in rows if not r[2] or r[3] == "MISSED"]
    print("%d seeded changes, %d need attention" % (len(rows), len(bad)))
    subprocess.run(["python3", "/verif/tools/fill_seeded_meta.py"])
    subprocess.run(["python3", "/verif/tools/rebuild_summary.py"])  # SUMMARY.json always covers every seeded change
    subprocess.run(["python3", "/verif/tools/gen_design_tables.py"])
main()
