#!/usr/bin/env python3
"""Fills meta.json 'needs_to_manifest' of every seeded change from the author's notes.md."""
import glob, json, os, re
for d in sorted(glob.glob("/verif/seeded/*")):
    mp, np = os.path.join(d, "meta.json"), os.path.join(d, "notes.md")
    if not (os.path.isdir(d) and os.path.exists(mp)):
        continue
    m = json.load(open(mp))
    txt = open(np).read() if os.path.exists(np) else ""
    paras = re.split(r"\n\s*\n|\n(?=#)", txt)
    pick = ""
    for i, p in enumerate(paras):
        head = p.strip().splitlines()[0].lower() if p.strip() else ""
        if re.search(r"need|trigger|manifest|requires|what it takes", head):
            body = p.strip()
            if len(body.splitlines()) == 1 and i + 1 < len(paras):
                body += " " + paras[i + 1].strip()
            pick = body
            break
    if not pick:
        for p in paras:
            if re.search(r"\b(needs?|trigger|only shows|manifest)\b", p, re.I):
                pick = p.strip()
                break
    pick = re.sub(r"\s+", " ", pick).strip("# ")
    m["needs_to_manifest"] = (pick[:500] + ("..." if len(pick) > 500 else "")) if pick else "see notes.md"
    json.dump(m, open(mp, "w"), indent=1)
print("done")
